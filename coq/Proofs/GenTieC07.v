(* Lemmas about the definitions regenerated from /repo's source by tools/pygen.py (coq/Gen/*.v): re-checked at every build.
   One file per property so that a change of one constant only breaks the obligations that depend on it. *)
From Coq Require Import List Bool NArith.
From PFL Require Import Base.ListSet Spec.Cfg Model.Cfg Gen.PyConst Gen.PyFun.
Import ListNotations.

(* inside a character set of PythonRegex, '.' and '$' (and the other operator characters) are escaped *)
Lemma brackets_escape_dot_dollar : In 46%N pyre_TO_ESCAPE_IN_BRACKETS /\ In 36%N pyre_TO_ESCAPE_IN_BRACKETS /\
  In 40%N pyre_TO_ESCAPE_IN_BRACKETS /\ In 41%N pyre_TO_ESCAPE_IN_BRACKETS /\ In 42%N pyre_TO_ESCAPE_IN_BRACKETS /\
  In 43%N pyre_TO_ESCAPE_IN_BRACKETS /\ In 63%N pyre_TO_ESCAPE_IN_BRACKETS.
Proof. cbn. tauto. Qed.

