(* CFG.substitute builds exactly the substituted language (C10). *)
From Coq Require Import List Bool Arith NArith Lia.
From PFL Require Import Base.ListSet Spec.Cfg Model.Cfg Model.CfgOps.
Import ListNotations.

(* ---- specification: the word relation of a substitution ---- *)
Section Spec.
  Context {V1 : Type}.
  Fixpoint sigma_of (sigma : list (N * cfg V1)) (a : N) : option (cfg V1) :=
    match sigma with [] => None | (b, H) :: r => if N.eqb a b then Some H else sigma_of r a end.
  (* [subst_rel sigma u w]: w is u with every substituted terminal replaced by a word of its grammar *)
  Inductive subst_rel (sigma : list (N * cfg V1)) : list N -> list N -> Prop :=
  | sr_nil : subst_rel sigma [] []
  | sr_sub a u H s v w : sigma_of sigma a = Some H -> g_start H = Some s -> derives H (V s) v ->
                         subst_rel sigma u w -> subst_rel sigma (a :: u) (v ++ w)
  | sr_keep a u w : sigma_of sigma a = None -> subst_rel sigma u w -> subst_rel sigma (a :: u) (a :: w).

  Lemma subst_rel_app sigma u1 w1 u2 w2 : subst_rel sigma u1 w1 -> subst_rel sigma u2 w2 -> subst_rel sigma (u1 ++ u2) (w1 ++ w2).
  Proof.
    intros R1 R2. induction R1 as [|a u H s v w E Es D R IH|a u w E R IH]; cbn [app]; [exact R2| |].
    - rewrite <- app_assoc. now apply sr_sub with H s.
    - now apply sr_keep.
  Qed.
  Lemma subst_rel_app_inv sigma u1 : forall u2 w, subst_rel sigma (u1 ++ u2) w ->
    exists w1 w2, w = w1 ++ w2 /\ subst_rel sigma u1 w1 /\ subst_rel sigma u2 w2.
  Proof.
    induction u1 as [|a u1 IH]; intros u2 w R; cbn [app] in R.
    - exists [], w. split; [reflexivity|split; [apply sr_nil|exact R]].
    - inversion R as [|? ? H s v w' E Es D R'|? ? w' E R']; subst.
      + destruct (IH _ _ R') as [w1 [w2 [-> [R1 R2]]]]. exists (v ++ w1), w2. split; [now rewrite app_assoc|split; [now apply sr_sub with H s|exact R2]].
      + destruct (IH _ _ R') as [w1 [w2 [-> [R1 R2]]]]. exists (a :: w1), w2. split; [reflexivity|split; [now apply sr_keep|exact R2]].
  Qed.
End Spec.

Section Proof.
  Context {V0 V1 : Type}.
  Variable G : cfg V0.
  Variable sigma : list (N * cfg V1).
  (* pyformlang looks the start symbol of every substituted grammar up in its renaming table: it must exist *)
  Hypothesis Hstart : forall a H, In (a, H) sigma -> g_start H <> None.
  Notation sv := (svar V0 V1).
  Notation S := (substitute G sigma).

  Lemma tag_all_In (sg : list (N * cfg V1)) : forall i0 A' body',
    In (A', body') (tag_all (V0:=V0) i0 sg) <->
    exists j b H A body, nth_error sg j = Some (b, H) /\ A' = SVi (i0 + j) A /\ body' = map (tag_symb (i0 + j)) body /\ In (A, body) (g_prods H).
  Proof.
    induction sg as [|[b H] r IH]; intros i0 A' body'; cbn [tag_all].
    - split; [intros []|]. intros [j [b [H [A [body [E _]]]]]]. destruct j; discriminate.
    - rewrite in_app_iff, in_map_iff, IH. split.
      + intros [[[A body] [E Hp]]|[j [b' [H' [A [body [E1 [E2 [E3 Hp]]]]]]]]].
        * inversion E; subst. exists 0, b, H, A, body. rewrite Nat.add_0_r. cbn [fst snd nth_error]. auto.
        * exists (Datatypes.S j), b', H', A, body. cbn [nth_error]. rewrite Nat.add_succ_r. auto.
      + intros [j [b' [H' [A [body [E1 [E2 [E3 Hp]]]]]]]]. destruct j as [|j].
        * cbn [nth_error] in E1. inversion E1; subst. left. exists (A, body). rewrite Nat.add_0_r. auto.
        * right. exists j, b', H', A, body. cbn [nth_error] in E1. rewrite Nat.add_succ_r in E2, E3. auto.
  Qed.

  Lemma lookup_Some a (sg : list (N * cfg V1)) : forall i0 i H, lookup_subst a i0 sg = Some (i, H) ->
    exists j, i = i0 + j /\ nth_error sg j = Some (a, H) /\ sigma_of sg a = Some H.
  Proof.
    induction sg as [|[b H'] r IH]; intros i0 i H E; cbn [lookup_subst sigma_of] in *; [discriminate|].
    destruct (N.eqb_spec a b) as [->|Ne].
    - inversion E; subst. exists 0. rewrite Nat.add_0_r. auto.
    - destruct (IH _ _ _ E) as [j [-> [E1 E2]]]. exists (Datatypes.S j). rewrite Nat.add_succ_r. auto.
  Qed.
  Lemma lookup_None a (sg : list (N * cfg V1)) : forall i0, lookup_subst a i0 sg = None -> sigma_of sg a = None.
  Proof.
    induction sg as [|[b H'] r IH]; intros i0 E; cbn [lookup_subst sigma_of] in *; [reflexivity|].
    destruct (N.eqb a b); [discriminate|eauto].
  Qed.
  Lemma sigma_of_lookup a (sg : list (N * cfg V1)) H : forall i0, sigma_of sg a = Some H -> exists i, lookup_subst a i0 sg = Some (i, H).
  Proof.
    induction sg as [|[b H'] r IH]; intros i0 E; cbn [lookup_subst sigma_of] in *; [discriminate|].
    destruct (N.eqb a b); [inversion E; eauto|eauto].
  Qed.

  Lemma S_prods : g_prods S = tag_all 0 sigma ++ map (fun p => (SV0 (fst p), map (subst_symb sigma) (snd p))) (g_prods G).
  Proof. reflexivity. Qed.

  Lemma S_prods_i i A body' : In (SVi i A, body') (g_prods S) <->
    exists b H body, nth_error sigma i = Some (b, H) /\ body' = map (tag_symb i) body /\ In (A, body) (g_prods H).
  Proof.
    rewrite S_prods, in_app_iff, tag_all_In. split.
    - intros [[j [b [H [A0 [body [E1 [E2 [E3 Hp]]]]]]]]|Hm].
      + cbn [Nat.add] in E2, E3. inversion E2; subst. eauto 7.
      + apply in_map_iff in Hm. destruct Hm as [p [E _]]. discriminate.
    - intros [b [H [body [E1 [E2 Hp]]]]]. left. exists i, b, H, A, body. cbn [Nat.add]. auto.
  Qed.
  Lemma S_prods_0 A body' : In (SV0 A, body') (g_prods S) <->
    exists body, body' = map (subst_symb sigma) body /\ In (A, body) (g_prods G).
  Proof.
    rewrite S_prods, in_app_iff, tag_all_In. split.
    - intros [[j [b [H [A0 [body [E1 [E2 _]]]]]]]|Hm]; [discriminate|].
      apply in_map_iff in Hm. destruct Hm as [[A0 body] [E Hp]]. inversion E; subst. eauto.
    - intros [body [-> Hp]]. right. apply in_map_iff. exists (A, body). auto.
  Qed.

  (* the tagged copy of the i-th grammar behaves like that grammar *)
  Lemma to_tagged i b H : nth_error sigma i = Some (b, H) ->
    (forall X w, derives H X w -> derives S (tag_symb i X) w) /\
    (forall body w, derives_list H body w -> derives_list S (map (tag_symb i) body) w).
  Proof.
    intros E. apply derives_mutind.
    - intros a. apply dv_ter.
    - intros A body w Hp DL IH. cbn [tag_symb]. apply dv_var with (map (tag_symb i) body); [|exact IH]. apply S_prods_i. exists b, H, body. auto.
    - apply dl_nil.
    - intros X rest u v _ IHX _ IHL. cbn [map]. now apply dl_cons.
  Qed.
  Lemma from_tagged i b H : nth_error sigma i = Some (b, H) ->
    (forall Y w, derives S Y w -> forall X, Y = tag_symb i X -> derives H X w) /\
    (forall body' w, derives_list S body' w -> forall body, body' = map (tag_symb i) body -> derives_list H body w).
  Proof.
    intros E. apply derives_mutind.
    - intros a [A|a'] E1; cbn [tag_symb] in E1; [discriminate|]. inversion E1. apply dv_ter.
    - intros A' body' w Hp DL IH [A|a'] E1; cbn [tag_symb] in E1; [|discriminate]. inversion E1; subst A'.
      apply S_prods_i in Hp. destruct Hp as [b' [H' [body [E2 [E3 Hp]]]]]. rewrite E in E2. inversion E2; subst.
      apply dv_var with body; [exact Hp|]. now apply IH.
    - intros [|X r] E1; [apply dl_nil|discriminate].
    - intros Y rest' u v _ IHX _ IHL [|X rest] E1; [discriminate|]. cbn [map] in E1. inversion E1; subst.
      apply dl_cons; [now apply IHX|now apply IHL].
  Qed.

  Lemma from_S :
    (forall Y w, derives S Y w -> forall X, Y = subst_symb sigma X -> exists u, derives G X u /\ subst_rel sigma u w) /\
    (forall body' w, derives_list S body' w -> forall body, body' = map (subst_symb sigma) body -> exists u, derives_list G body u /\ subst_rel sigma u w).
  Proof.
    apply derives_mutind.
    - intros a [A|a'] E1; cbn [subst_symb] in E1; [discriminate|].
      destruct (lookup_subst a' 0 sigma) as [[i H]|] eqn:L.
      + destruct (lookup_Some _ _ _ _ _ L) as [j [_ [E2 _]]]. apply nth_error_In in E2. specialize (Hstart _ _ E2).
        destruct (g_start H); [discriminate|congruence].
      + inversion E1; subst. exists [a']. split; [apply dv_ter|]. apply sr_keep; [now apply lookup_None with 0|apply sr_nil].
    - intros A' body' w Hp DL IH [A|a'] E1; cbn [subst_symb] in E1.
      + inversion E1; subst A'. apply S_prods_0 in Hp. destruct Hp as [body [-> Hp]].
        destruct (IH body eq_refl) as [u [D R]]. exists u. split; [now apply dv_var with body|exact R].
      + destruct (lookup_subst a' 0 sigma) as [[i H]|] eqn:L; [|discriminate].
        destruct (lookup_Some _ _ _ _ _ L) as [j [Ej [E2 E3]]]. cbn [Nat.add] in Ej. subst j.
        destruct (g_start H) as [s|] eqn:Es; [|discriminate]. inversion E1; subst A'.
        exists [a']. split; [apply dv_ter|]. rewrite <- (app_nil_r w). apply sr_sub with H s; auto; [|apply sr_nil].
        apply (proj1 (from_tagged i a' H E2) (V (SVi i s)) w); [|reflexivity]. now apply dv_var with body'.
    - intros [|X r] E1; [|discriminate]. exists []. split; [apply dl_nil|apply sr_nil].
    - intros Y rest' u v _ IHX _ IHL [|X rest] E1; [discriminate|]. cbn [map] in E1. inversion E1; subst.
      destruct (IHX X eq_refl) as [u1 [D1 R1]]. destruct (IHL rest eq_refl) as [u2 [D2 R2]].
      exists (u1 ++ u2). split; [now apply dl_cons|now apply subst_rel_app].
  Qed.

  Lemma to_S :
    (forall X u, derives G X u -> forall w, subst_rel sigma u w -> derives S (subst_symb sigma X) w) /\
    (forall body u, derives_list G body u -> forall w, subst_rel sigma u w -> derives_list S (map (subst_symb sigma) body) w).
  Proof.
    apply derives_mutind.
    - intros a w R. cbn [subst_symb]. inversion R as [|? ? H s v w' E Es D R'|? ? w' E R']; subst.
      + inversion R'; subst. rewrite app_nil_r. destruct (sigma_of_lookup _ _ _ 0 E) as [i L]. rewrite L, Es.
        destruct (lookup_Some _ _ _ _ _ L) as [j [Ej [E2 _]]]. cbn [Nat.add] in Ej. subst j.
        apply (proj1 (to_tagged i a H E2) (V s) v D).
      + inversion R'; subst. destruct (lookup_subst a 0 sigma) as [[i H]|] eqn:L; [|apply dv_ter].
        destruct (lookup_Some _ _ _ _ _ L) as [j [_ [_ E3]]]. congruence.
    - intros A body u Hp DL IH w R. cbn [subst_symb]. apply dv_var with (map (subst_symb sigma) body); [|now apply IH].
      apply S_prods_0. eauto.
    - intros w R. inversion R; subst. apply dl_nil.
    - intros X rest u v _ IHX _ IHL w R. apply subst_rel_app_inv in R. destruct R as [w1 [w2 [-> [R1 R2]]]].
      cbn [map]. apply dl_cons; [now apply IHX|now apply IHL].
  Qed.

  Theorem substitute_lang w : LangG S w <-> exists u, LangG G u /\ subst_rel sigma u w.
  Proof.
    unfold LangG. change (g_start S) with (option_map (@SV0 V0 V1) (g_start G)). destruct (g_start G) as [s|]; cbn [option_map].
    - split.
      + intros D. apply (proj1 from_S (V (SV0 s)) w D (V s) eq_refl).
      + intros [u [D R]]. apply (proj1 to_S (V s) u D w R).
    - split; [intros []|intros [u [[] _]]].
  Qed.
End Proof.
