(* is_finite: on a grammar in Chomsky normal form whose variables are all generating and reachable, the language is finite
   exactly when the variable graph is acyclic (C12). *)
From Coq Require Import List Bool Arith NArith Lia.
From PFL Require Import Base.ListSet Base.Closure Spec.Cfg Model.Cfg Model.CfgWords Proofs.CfgCyk.
Import ListNotations.

Definition lang_finite {X} (C : cfg X) : Prop := exists n, forall w, LangG C w -> length w <= n.

Section F.
  Context {X : Type} `{EqDec X}.
  Variable C : cfg X.
  Hypothesis Hnf : is_normal_form C = true.
  Notation vs := (dedup (map fst (g_prods C) ++ flat_map (fun p => body_vars (snd p)) (g_prods C))).
  Notation succ := (var_succs C).
  Definition plus (A B : X) : Prop := reach succ (succ A) B.

  Lemma var_succs_In A B : In B (succ A) <-> exists B1 C1, In (A, [V B1; V C1]) (g_prods C) /\ (B = B1 \/ B = C1).
  Proof.
    unfold var_succs. rewrite in_flat_map. split.
    - intros [[A0 body] [Hp Hb]]. cbn [fst snd] in Hb. destruct (eqb_spec A A0) as [<-|]; [|destruct Hb].
      destruct body as [|[B1|?] [|[C1|?] [|? ?]]]; try (now destruct Hb). exists B1, C1. split; [exact Hp|]. destruct Hb as [<-|[<-|[]]]; auto.
    - intros [B1 [C1 [Hp HB]]]. exists (A, [V B1; V C1]). split; [exact Hp|]. cbn [fst snd]. rewrite eqb_refl. destruct HB as [-> | ->]; [now left|right; now left].
  Qed.
  Lemma head_in_vs A body : In (A, body) (g_prods C) -> In A vs.
  Proof. intros Hp. apply dedup_In. apply in_or_app. left. apply in_map_iff. exists (A, body). auto. Qed.
  Lemma bodyvar_in_vs A body B : In (A, body) (g_prods C) -> In (V B) body -> In B vs.
  Proof.
    intros Hp HB. apply dedup_In. apply in_or_app. right. apply in_flat_map. exists (A, body). split; [exact Hp|]. cbn [snd].
    unfold body_vars. apply in_flat_map. exists (V B). split; [exact HB|now left].
  Qed.
  Lemma succ_in_vs A B : In B (succ A) -> In A vs /\ In B vs.
  Proof.
    intros HB. apply var_succs_In in HB. destruct HB as [B1 [C1 [Hp HB]]]. split; [now apply head_in_vs with [V B1; V C1]|].
    apply bodyvar_in_vs with A [V B1; V C1]; [exact Hp|]. destruct HB as [-> | ->]; [now left|right; now left].
  Qed.
  Lemma plus_step A B D : plus A B -> In D (succ B) -> plus A D.
  Proof. intros P HD. now apply reach_step with B. Qed.
  Lemma plus_trans A B D : plus A B -> plus B D -> plus A D.
  Proof. intros P1 P2. unfold plus in P2. induction P2 as [Y HY|Y Z _ IH HZ]; [now apply plus_step with B|now apply plus_step with Y]. Qed.

  Lemma acyclic_spec : graph_acyclic C = true <-> forall A, In A vs -> ~ plus A A.
  Proof.
    unfold graph_acyclic. rewrite forallb_forall. split.
    - intros Ha A HA P. specialize (Ha A HA). apply negb_true_iff in Ha. apply mem_nIn in Ha. apply Ha. apply closure_spec; [| |exact P].
      + intros x _ y Hy. now apply succ_in_vs in Hy.
      + intros y Hy. now apply succ_in_vs in Hy.
    - intros Hn A HA. apply negb_true_iff. apply mem_nIn. intros Hc. apply (Hn A HA). apply closure_spec in Hc; [exact Hc| |].
      + intros x _ y Hy. now apply succ_in_vs in Hy.
      + intros y Hy. now apply succ_in_vs in Hy.
  Qed.

  (* ---- acyclic => every derivation tree is shallow => words are short ---- *)
  Section Acyclic.
    Hypothesis Hac : forall A, In A vs -> ~ plus A A.
    Definition Pv (B : X) (u : list N) : Prop :=
      forall anc, NoDup anc -> incl anc vs -> (forall D, In D anc -> plus D B) -> length u <= 2 ^ (length vs - Datatypes.S (length anc)).

    Lemma bound : (forall S w, derives C S w -> forall A, S = V A -> Pv A w) /\
                  (forall body w, derives_list C body w ->
                     (forall B1 C1, body = [V B1; V C1] -> exists u v, w = u ++ v /\ Pv B1 u /\ Pv C1 v) /\
                     (forall B1, body = [V B1] -> Pv B1 w) /\ (forall a, body = [T a] -> w = [a])).
    Proof.
      apply derives_mutind.
      - intros a A E. discriminate.
      - intros A0 body w Hp DL [IH2 [_ IH1]] A E anc ND Inc Pl. inversion E; subst A0.
        pose proof (head_in_vs _ _ Hp) as HA.
        assert (NA : ~ In A anc) by (intros Hi; apply (Hac A HA); now apply Pl).
        assert (Len : Datatypes.S (length anc) <= length vs).
        { change (Datatypes.S (length anc)) with (length (A :: anc)). apply NoDup_incl_length; [now constructor|]. intros x [<-|Hx]; auto. }
        destruct (nf_prod C Hnf _ _ Hp) as [[B1 [C1 ->]]|[a ->]].
        + destruct (IH2 B1 C1 eq_refl) as [u [v [-> [PB PC]]]].
          assert (Anc' : forall B, In B (succ A) -> (forall D, In D (A :: anc) -> plus D B)).
          { intros B HB D [<-|HD]; [now apply reach_init|]. apply plus_step with A; [now apply Pl|exact HB]. }
          assert (HB1 : In B1 (succ A)) by (apply var_succs_In; exists B1, C1; auto).
          assert (HC1 : In C1 (succ A)) by (apply var_succs_In; exists B1, C1; auto).
          assert (L2 : Datatypes.S (Datatypes.S (length anc)) <= length vs).
          { change (Datatypes.S (Datatypes.S (length anc))) with (length (B1 :: A :: anc)). apply NoDup_incl_length.
            - constructor; [|now constructor]. intros Hi. apply (Hac B1 (proj2 (succ_in_vs _ _ HB1))). now apply (Anc' B1 HB1).
            - intros x [<-|[<-|Hx]]; auto. now apply (succ_in_vs _ _ HB1). }
          specialize (PB (A :: anc) (NoDup_cons _ NA ND) (fun x Hx => match Hx with or_introl e => eq_ind _ (fun y => In y vs) HA _ e | or_intror h => Inc x h end) (Anc' B1 HB1)).
          specialize (PC (A :: anc) (NoDup_cons _ NA ND) (fun x Hx => match Hx with or_introl e => eq_ind _ (fun y => In y vs) HA _ e | or_intror h => Inc x h end) (Anc' C1 HC1)).
          cbn [length] in PB, PC. rewrite app_length.
          replace (length vs - Datatypes.S (length anc)) with (Datatypes.S (length vs - Datatypes.S (Datatypes.S (length anc)))) by lia.
          cbn [Nat.pow]. lia.
        + rewrite (IH1 a eq_refl). cbn [length]. assert (0 < 2 ^ (length vs - Datatypes.S (length anc))) by (apply Nat.neq_0_lt_0, Nat.pow_nonzero; lia). lia.
      - split; [|split]; intros; discriminate.
      - intros S rest u v DS IHS DL [_ [IHL1 _]]. split; [|split].
        + intros B1 C1 E. inversion E; subst. exists u, v. split; [reflexivity|split; [now apply IHS|now apply IHL1]].
        + intros B1 E. inversion E; subst. inversion DL; subst. rewrite app_nil_r. now apply IHS.
        + intros a E. inversion E; subst. inversion DL; subst. inversion DS; subst. reflexivity.
    Qed.

    Lemma acyclic_finite : lang_finite C.
    Proof.
      exists (2 ^ length vs). intros w L. unfold LangG in L. destruct (g_start C) as [s|]; [|destruct L].
      pose proof (proj1 bound _ _ L s eq_refl [] (NoDup_nil _) (fun x Hx => match Hx with end) (fun D HD => match HD with end)) as B.
      cbn [length] in B. etransitivity; [exact B|]. apply Nat.pow_le_mono_r; lia.
    Qed.
  End Acyclic.

  (* ---- a cycle through generating, reachable variables pumps ---- *)
  Section Cyclic.
    Variable s : X.
    Hypothesis Es : g_start C = Some s.
    Hypothesis Hgen : forall A, In A vs -> exists w, derives C (V A) w.
    Hypothesis Hreach : forall A, In A vs -> A = s \/ reach succ [s] A.

    Inductive ctx : X -> X -> list N -> list N -> Prop :=
    | ctx_refl A : ctx A A [] []
    | ctx_l A B1 C1 D u v w : In (A, [V B1; V C1]) (g_prods C) -> derives C (V C1) w -> ctx B1 D u v -> ctx A D u (v ++ w)
    | ctx_r A B1 C1 D u v w : In (A, [V B1; V C1]) (g_prods C) -> derives C (V B1) w -> ctx C1 D u v -> ctx A D (w ++ u) v.

    Lemma ctx_fill A B u v : ctx A B u v -> forall w, derives C (V B) w -> derives C (V A) (u ++ w ++ v).
    Proof.
      induction 1 as [A|A B1 C1 D u v w0 Hp Dw _ IH|A B1 C1 D u v w0 Hp Dw _ IH]; intros w Dv.
      - now rewrite app_nil_r.
      - apply dv_var with [V B1; V C1]; [exact Hp|]. replace (u ++ w ++ v ++ w0) with ((u ++ w ++ v) ++ w0 ++ []) by (now rewrite app_nil_r, <- !app_assoc).
        apply dl_cons; [now apply IH|]. apply dl_cons; [exact Dw|apply dl_nil].
      - apply dv_var with [V B1; V C1]; [exact Hp|]. replace ((w0 ++ u) ++ w ++ v) with (w0 ++ (u ++ w ++ v) ++ []) by (now rewrite app_nil_r, <- !app_assoc).
        apply dl_cons; [exact Dw|]. apply dl_cons; [now apply IH|apply dl_nil].
    Qed.
    Lemma ctx_trans A B D u v u' v' : ctx A B u v -> ctx B D u' v' -> ctx A D (u ++ u') (v' ++ v).
    Proof.
      induction 1 as [A|A B1 C1 E u v w0 Hp Dw _ IH|A B1 C1 E u v w0 Hp Dw _ IH]; intros X2.
      - now rewrite app_nil_r.
      - rewrite app_assoc. apply ctx_l with B1 C1; auto.
      - rewrite <- app_assoc. apply ctx_r with B1 C1; auto.
    Qed.
    Lemma edge_ctx A B : In B (succ A) -> exists u v, ctx A B u v /\ 1 <= length u + length v.
    Proof.
      intros HB. apply var_succs_In in HB. destruct HB as [B1 [C1 [Hp HB]]].
      destruct (Hgen B1 (bodyvar_in_vs _ _ _ Hp (or_introl eq_refl))) as [wb Db].
      destruct (Hgen C1 (bodyvar_in_vs _ _ _ Hp (or_intror (or_introl eq_refl)))) as [wc Dc].
      pose proof (proj1 (nf_nonempty C Hnf) _ _ Db) as Nb. pose proof (proj1 (nf_nonempty C Hnf) _ _ Dc) as Nc.
      destruct HB as [-> | ->].
      - exists [], ([] ++ wc). split; [apply ctx_l with B1 C1; [exact Hp|exact Dc|apply ctx_refl]|]. destruct wc; [congruence|cbn; lia].
      - exists (wb ++ []), []. split; [apply ctx_r with B1 C1; [exact Hp|exact Db|apply ctx_refl]|]. destruct wb; [congruence|cbn; lia].
    Qed.
    Lemma plus_ctx A B : plus A B -> exists u v, ctx A B u v /\ 1 <= length u + length v.
    Proof.
      unfold plus. induction 1 as [Y HY|Y Z _ [u [v [Cx L]]] HZ]; [now apply edge_ctx|].
      destruct (edge_ctx _ _ HZ) as [u' [v' [Cx' L']]]. exists (u ++ u'), (v' ++ v). split; [now apply ctx_trans with Y|]. rewrite !app_length. lia.
    Qed.
    Lemma reach_ctx A : reach succ [s] A -> exists u v, ctx s A u v.
    Proof.
      induction 1 as [Y [<-|[]]|Y Z _ [u [v Cx]] HZ]; [exists [], []; apply ctx_refl|].
      destruct (edge_ctx _ _ HZ) as [u' [v' [Cx' _]]]. exists (u ++ u'), (v' ++ v). now apply ctx_trans with Y.
    Qed.
    Lemma pump A u v : ctx A A u v -> 1 <= length u + length v -> forall n, exists un vn, ctx A A un vn /\ n <= length un + length vn.
    Proof.
      intros Cx L. induction n as [|n [un [vn [Cn Ln]]]]; [exists [], []; split; [apply ctx_refl|cbn; lia]|].
      exists (u ++ un), (vn ++ v). split; [now apply ctx_trans with A|]. rewrite !app_length. lia.
    Qed.

    Lemma cycle_infinite A : In A vs -> plus A A -> ~ lang_finite C.
    Proof.
      intros HA P [n Hn]. destruct (plus_ctx _ _ P) as [u [v [Cx L]]]. destruct (pump A u v Cx L (Datatypes.S n)) as [un [vn [Cn Ln]]].
      destruct (Hgen A HA) as [w0 D0].
      assert (Cs : exists x y, ctx s A x y).
      { destruct (Hreach A HA) as [->|R]; [exists [], []; apply ctx_refl|now apply reach_ctx]. }
      destruct Cs as [x [y Cs]].
      pose proof (ctx_fill _ _ _ _ Cs _ (ctx_fill _ _ _ _ Cn _ D0)) as Dw.
      assert (Lw : LangG C (x ++ (un ++ w0 ++ vn) ++ y)) by (unfold LangG; now rewrite Es).
      specialize (Hn _ Lw). rewrite !app_length in Hn. lia.
    Qed.

    Theorem graph_acyclic_spec : graph_acyclic C = true <-> lang_finite C.
    Proof.
      split.
      - intros Ha. apply acyclic_finite. now apply acyclic_spec.
      - intros Fin. destruct (graph_acyclic C) eqn:Eg; [reflexivity|exfalso].
        unfold graph_acyclic in Eg. apply Bool.not_true_iff_false in Eg. apply Eg. apply forallb_forall. intros A HA.
        apply negb_true_iff. apply mem_nIn. intros Hc. apply (cycle_infinite A HA); [|exact Fin].
        apply closure_spec in Hc; [exact Hc| |].
        + intros x _ y Hy. now apply succ_in_vs in Hy.
        + intros y Hy. now apply succ_in_vs in Hy.
    Qed.
  End Cyclic.
End F.

(* ---- the hypotheses as a boolean test (evaluated on every case by the correspondence leg), and is_finite itself ---- *)
From PFL Require Import Proofs.CfgSymbols Proofs.CfgNormalForm.
Section Top.
  Context {X : Type} `{EqDec X}.
  Theorem graph_acyclic_useful (C : cfg X) : is_normal_form C = true -> nf_vars_useful C = true ->
    (graph_acyclic C = true <-> lang_finite C).
  Proof.
    intros Hnf Hu. unfold nf_vars_useful in Hu. destruct (g_start C) as [s|] eqn:Es; [|discriminate]. rewrite forallb_forall in Hu.
    apply (graph_acyclic_spec C Hnf s Es).
    - intros A HA. specialize (Hu A HA). apply andb_true_iff in Hu. destruct Hu as [Hg _]. apply mem_In in Hg. now apply generating_vars_spec.
    - intros A HA. specialize (Hu A HA). apply andb_true_iff in Hu. destruct Hu as [_ Hr]. apply orb_true_iff in Hr. destruct Hr as [Hr|Hr].
      + left. now apply (proj1 (eqb_eq A s)).
      + right. apply mem_In in Hr. apply closure_spec in Hr; [exact Hr| |].
        * intros x _ y Hy. right. now apply (succ_in_vs C) in Hy.
        * intros y [<-|[]]. now left.
  Qed.
End Top.

Theorem is_finite_spec {Vr} `{EqDec Vr} (fuel : nat) (G : cfg Vr) (C : cfg (cvar Vr)) (b : bool) :
  to_normal_form fuel G = Some C -> nf_vars_useful C = true -> is_finite fuel G = Some b -> (b = true <-> lang_finite G).
Proof.
  intros En Hu Ef. unfold is_finite in Ef. rewrite En in Ef. cbn [option_map] in Ef. inversion Ef; subst b. clear Ef.
  pose proof (to_normal_form_nf fuel G C En) as Hnf. rewrite (graph_acyclic_useful C Hnf Hu). unfold lang_finite. split.
  - intros [n Hn]. exists n. intros w L. destruct w as [|a w']; [cbn; lia|]. apply Hn. apply (to_normal_form_lang fuel G C (a :: w') En); [discriminate|exact L].
  - intros [n Hn]. exists n. intros w L. apply Hn. apply (to_normal_form_lang fuel G C w En); [|exact L].
    intros ->. unfold LangG in L. destruct (g_start C) as [s|]; [|exact L]. now apply (proj1 (nf_nonempty C Hnf) _ _ L).
Qed.
