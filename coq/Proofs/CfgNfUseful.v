(* The normal form computed by to_normal_form has no useless variable: every variable is generating and reachable from the start
   symbol in the variable graph. This discharges the hypothesis of the finiteness theorem for every registered grammar (C12). *)
From Coq Require Import List Bool Arith NArith Lia.
From PFL Require Import Base.ListSet Base.Closure Base.NoDupLoops Spec.Cfg Model.Cfg Model.CfgWords Proofs.CfgSymbols Proofs.CfgOps Proofs.CfgCyk
  Proofs.CfgUseless Proofs.CfgLift Proofs.CfgDecompose Proofs.CfgNormalForm Proofs.CfgNfTotal Proofs.CfgFinite.
From PFL Require Import Proofs.CfgDecompose2.
Import ListNotations.

(* what CFG.__init__ establishes *)
Definition cfg_wf {Vr} (G : cfg Vr) : Prop :=
  NoDup (g_vars G) /\ NoDup (g_terms G) /\
  (forall A body, In (A, body) (g_prods G) -> In A (g_vars G)) /\
  (forall A body B, In (A, body) (g_prods G) -> In (V B) body -> In B (g_vars G)) /\
  (forall A body a, In (A, body) (g_prods G) -> In (T a) body -> In a (g_terms G)) /\
  (forall s, g_start G = Some s -> In s (g_vars G)).

Section U.
  Context {Vr : Type} `{EqDec Vr}.
  Variable G : cfg Vr.
  Hypothesis W : cfg_wf G.
  Hypothesis F : fast_path_ok G = true.
  Variable s : Vr.
  Hypothesis Es : g_start G = Some s.
  Notation ps := (single_terminals G).
  Notation out := (decompose ps).
  Notation Gd0 := (Gd (Vr:=Vr) [] [] (Some (CV s)) ps).
  Notation Gin0 := (Gin (Vr:=Vr) [] [] (Some (CV s)) ps).

  (* ---- facts carried by the fast-path test ---- *)
  Lemma all_vars_generating A : In A (g_vars G) -> exists w, derives G (V A) w.
  Proof.
    destruct W as [Wv [_ [Wh _]]]. intros HA. apply generating_vars_spec.
    unfold fast_path_ok in F. rewrite !andb_true_iff in F. destruct F as [[[_ _] Fg] _]. apply Nat.eqb_eq in Fg.
    unfold generating_symbols in Fg. rewrite app_length, !map_length in Fg.
    assert (I : incl (generating_vars G) (g_vars G)).
    { intros B HB. apply generating_vars_spec in HB. destruct HB as [w D]. inversion D; subst. eapply Wh; eauto. }
    apply (@NoDup_length_incl _ (generating_vars G) (g_vars G) (generating_vars_nodup G)); [lia|exact I|exact HA].
  Qed.
  Lemma all_registered_reachable X : In X (map V (g_vars G) ++ map T (g_terms G)) -> In X (reachable_symbols G).
  Proof.
    destruct W as [Wv [Wt [Wh [Wb [Wtm Ws]]]]]. intros HX.
    unfold fast_path_ok in F. rewrite !andb_true_iff in F. destruct F as [_ Fr]. apply Nat.eqb_eq in Fr.
    assert (I : incl (reachable_symbols G) (map V (g_vars G) ++ map T (g_terms G))).
    { intros Y HY. apply reachable_registered in HY. unfold all_symbols in HY. apply in_app_or in HY. apply in_or_app. destruct HY as [HY|HY].
      - rewrite Es in HY. destruct HY as [<-|[]]. left. apply in_map. now apply Ws.
      - apply in_flat_map in HY. destruct HY as [[A body] [Hp [<-|HY]]]; [left; apply in_map; eapply Wh; eauto|]. cbn [snd] in HY.
        destruct Y as [B|b]; [left; apply in_map; eapply Wb; eauto|right; apply in_map; eapply Wtm; eauto]. }
    apply (@NoDup_length_incl _ (reachable_symbols G) (map V (g_vars G) ++ map T (g_terms G)) (reachable_nodup G)); [rewrite app_length, !map_length; lia|exact I|exact HX].
  Qed.

  Lemma ps_nocc0 : Forall nocc_prod ps.
  Proof. apply single_terminals_nocc. Qed.

  (* ---- generating ---- *)
  Lemma CV_generating A : In A (g_vars G) -> exists w, derives Gd0 (V (CV A)) w.
  Proof.
    intros HA. destruct (all_vars_generating A HA) as [w D]. exists w.
    apply (decompose_lang [] [] (Some (CV s)) ps ps_nocc0 (V (CV A)) w I).
    apply (proj1 (derives_same_prods (Gl G) Gin0 eq_refl)). now apply lift_lang.
  Qed.
  Lemma CT_generating a : In a (l_used G) -> exists w, derives Gd0 (V (CT a)) w.
  Proof.
    intros Ha. exists [a]. apply (decompose_lang [] [] (Some (CV s)) ps ps_nocc0 (V (CT a)) [a] I).
    apply dv_var with [T a]; [apply (proj2 (Gl_prods G (CT a) [T a])); right; eauto|]. apply (dl_cons _ (T a) [] [a] []); [apply dv_ter|apply dl_nil].
  Qed.

  (* the non-fresh variables that can occur in the result *)
  Definition known (x : cvar Vr) : Prop := (exists A, x = CV A /\ In A (g_vars G)) \/ (exists a, x = CT a /\ In a (l_used G)).
  Lemma known_generating x : known x -> exists w, derives Gd0 (V x) w.
  Proof. intros [[A [-> HA]]|[a [-> Ha]]]; [now apply CV_generating|now apply CT_generating]. Qed.

  Lemma ps_head_known h b : In (h, b) ps -> known h.
  Proof.
    destruct W as [_ [_ [Wh _]]]. intros Hp. apply (proj1 (Gl_prods G h b)) in Hp. destruct Hp as [[A [body [-> [_ Hp]]]]|[a [-> [_ Ha]]]].
    - left. exists A. split; [reflexivity|eapply Wh; eauto].
    - right. eauto.
  Qed.
  Lemma ps_body_known h b x : In (h, b) ps -> In (V x) b -> known x.
  Proof.
    destruct W as [_ [_ [_ [Wb _]]]]. intros Hp Hx. apply (proj1 (Gl_prods G h b)) in Hp. destruct Hp as [[A [body [-> [-> Hp]]]]|[a [-> [-> Ha]]]].
    - destruct (lift_body_cases body) as [[E [X0 ->]]|[E Hn]]; rewrite E in Hx.
      + cbn in Hx. destruct Hx as [Hx|[]]. destruct X0 as [B|b0]; inversion Hx; subst. left. exists B. split; [reflexivity|]. eapply Wb; [exact Hp|now left].
      + apply in_map_iff in Hx. destruct Hx as [[B|b0] [E0 HB]]; inversion E0; subst.
        * left. exists B. split; [reflexivity|eapply Wb; eauto].
        * right. exists b0. split; [reflexivity|now apply used_In with A body].
    - destruct Hx as [Hx|[]]. discriminate.
  Qed.

  (* ---- reachability in the variable graph ---- *)
  Lemma chain_reach (o : list (cvar Vr * list (symb (cvar Vr)))) h body : chain o h body -> forall x, In (V x) body -> vplus o h x.
  Proof.
    induction 1 as [h Y Z Hp NY NZ|h Y k suf Hp NY C IH]; intros x Hx.
    - apply vp_one. exists Y, Z. split; [exact Hp|]. destruct Hx as [Hx|[Hx|[]]]; auto.
    - destruct Hx as [Hx|Hx].
      + apply vp_one. exists Y, (V (CC k)). split; [exact Hp|now left].
      + apply vplus_cons with (CC k); [exists Y, (V (CC k)); split; [exact Hp|now right]|now apply IH].
  Qed.
  Lemma chain_in_bodies (o : list (cvar Vr * list (symb (cvar Vr)))) h body : chain o h body -> forall X, In X body -> exists h' b', In (h', b') o /\ In X b' /\ nocc_sym X.
  Proof.
    induction 1 as [h Y Z Hp NY NZ|h Y k suf Hp NY C IH]; intros X HX.
    - exists h, [Y; Z]. split; [exact Hp|]. destruct HX as [<-|[<-|[]]]; (split; [cbn; auto|assumption]).
    - destruct HX as [<-|HX]; [exists h, [Y; V (CC k)]; split; [exact Hp|split; [now left|exact NY]]|now apply IH].
  Qed.

  Section WithInv.
    Variables (idx : N) (done : list (list (symb (cvar Vr)) * cvar Vr)).
    Hypothesis J : INV ps (idx, done, out).
    Hypothesis J2 : INV2 ps (idx, done, out).

    Lemma edge_lifted A body x : In (A, body) (g_prods G) -> 2 <= length body -> In (V x) (lift_body body) -> vplus out (CV A) x.
    Proof.
      destruct J as [_ [_ [_ [_ [J5 _]]]]]. intros Hp L Hx.
      assert (Hps : In (CV A, lift_body body) ps) by (apply (proj2 (Gl_prods G (CV A) (lift_body body))); left; eauto).
      assert (Ll : length (lift_body body) = length body).
      { destruct (lift_body_cases body) as [[E _]|[E _]]; rewrite E; apply map_length. }
      destruct (J5 _ _ Hps) as [Sh Lo]. destruct (Nat.leb_spec (length (lift_body body)) 2) as [Le|Gt].
      - specialize (Sh Le). destruct (lift_body body) as [|Y [|Z [|? ?]]] eqn:El; cbn [length] in *; try lia.
        apply vp_one. exists Y, Z. split; [exact Sh|]. destruct Hx as [Hx|[Hx|[]]]; auto.
      - now apply (chain_reach out (CV A) (lift_body body) (Lo Gt)).
    Qed.

    Lemma CV_reachable : forall X, reach (sym_succs G) [V s] X -> match X with V A => A = s \/ vplus out (CV s) (CV A) | T _ => True end.
    Proof.
      intros X R. induction R as [Y [<-|[]]|Y Z _ IH HZ]; [now left|]. destruct Z as [B|b]; [|exact I].
      apply sym_succs_In in HZ. destruct HZ as [A [body [-> [Hp HB]]]].
      destruct (fast_path_facts G F A body Hp) as [Ne Nu].
      assert (L : 2 <= length body).
      { destruct body as [|X1 [|X2 r]]; [congruence| |cbn; lia]. destruct HB as [E1|[]]. subst X1. unfold is_unit in Nu. cbn in Nu. discriminate. }
      assert (E : vplus out (CV A) (CV B)).
      { apply (edge_lifted A body (CV B) Hp L). destruct (lift_body_cases body) as [[_ [X0 ->]]|[E0 _]]; [cbn in L; lia|]. rewrite E0.
        apply in_map_iff. exists (V B). split; [reflexivity|exact HB]. }
      right. destruct IH as [->|P]; [exact E|now apply vplus_trans with (CV A)].
    Qed.
    Lemma known_reachable x : known x -> x = CV s \/ vplus out (CV s) x.
    Proof.
      intros [[A [-> HA]]|[a [-> Ha]]].
      - assert (R : In (V A) (reachable_symbols G)) by (apply all_registered_reachable; apply in_or_app; left; now apply in_map).
        apply reachable_In in R. rewrite Es in R. cbn [olist map] in R. destruct (CV_reachable _ R) as [->|P]; auto.
      - right. unfold l_used in Ha. rewrite dedup_In in Ha. apply in_flat_map in Ha. destruct Ha as [[A body] [Hp Ha]]. cbn [snd] in Ha.
        assert (Hb : (forall X, body <> [X]) /\ In a (body_terms body)).
        { destruct body as [|X1 [|X2 r]]; [destruct Ha|destruct Ha|]. split; [intros X; discriminate|exact Ha]. }
        destruct Hb as [Hn Hb]. unfold body_terms in Hb. apply in_flat_map in Hb. destruct Hb as [[B|b] [HX Hb]]; [destruct Hb|]. destruct Hb as [<-|[]].
        assert (L : 2 <= length body).
        { destruct body as [|X1 [|X2 r]]; [destruct HX|exfalso; now apply (Hn X1)|cbn; lia]. }
        assert (E : vplus out (CV A) (CT b)).
        { apply (edge_lifted A body (CT b) Hp L). destruct (lift_body_cases body) as [[_ [X0 E0]]|[E0 _]]; [exfalso; now apply (Hn X0)|]. rewrite E0.
          apply in_map_iff. exists (T b). split; [reflexivity|exact HX]. }
        destruct W as [_ [_ [Wh _]]]. assert (HA : known (CV A)) by (left; exists A; split; [reflexivity|eapply Wh; eauto]).
        assert (R : In (V A) (reachable_symbols G)).
        { apply all_registered_reachable. apply in_or_app. left. apply in_map. eapply Wh; eauto. }
        apply reachable_In in R. rewrite Es in R. cbn [olist map] in R. destruct (CV_reachable _ R) as [->|P]; [exact E|now apply vplus_trans with (CV A)].
    Qed.

    (* every non-fresh variable of the result is a known one *)
    Lemma nocc_head_known h b : nocc_var h -> In (h, b) out -> known h.
    Proof.
      destruct J as [_ [_ [_ [J4 _]]]]. intros Nh Hb. destruct (J4 h b Nh Hb) as [[Hp _]|[body [Hp _]]]; now apply ps_head_known in Hp.
    Qed.
    Lemma nocc_body_known h b x : In (h, b) out -> In (V x) b -> nocc_var x -> known x.
    Proof.
      destruct J as [_ [_ [_ [_ [_ J6]]]]]. intros Hb Hx Nx. destruct (J6 h b Hb) as [[Hp _]|[X [Y [-> [OX OY]]]]]; [now apply ps_body_known with h b|].
      assert (K : forall Z, okS ps Z -> Z = V x -> known x).
      { intros Z [[k ->]|[h' [body' [Hp' [_ HZ]]]]] E; [inversion E; subst; contradiction|]. subst Z. now apply ps_body_known with h' body'. }
      destruct Hx as [Hx|[Hx|[]]]; [now apply (K X OX)|now apply (K Y OY)].
    Qed.

    Lemma CC_useful k b : In (CC k, b) out -> (exists w, derives Gd0 (V (CC k)) w) /\ vplus out (CV s) (CC k).
    Proof.
      intros Hb. destruct J2 as [_ I3]. destruct (I3 k b Hb) as [[h [bb [Nh [Hp Pl]]]] [suf Dn]]. split.
      - destruct J as [J1 _]. destruct (J1 _ Dn) as [k0 [E0 [_ C]]]. cbn [fst snd] in *.
        destruct (derives_list_exists Gd0 suf) as [w Dw].
        { intros X HX. destruct (chain_in_bodies out _ _ C X HX) as [h' [b' [Hb' [HXb NX]]]]. destruct X as [x|a]; [|exists [a]; apply dv_ter].
          apply known_generating. now apply nocc_body_known with h' b'. }
        exists w. apply (chain_derive out Gd0 (CC k) suf eq_refl C w Dw).
      - apply ps_head_known in Hp. destruct (known_reachable h Hp) as [->|P]; [exact Pl|now apply vplus_trans with h].
    Qed.

    Lemma out_var_useful x : (exists b, In (x, b) out) \/ (exists h b, In (h, b) out /\ In (V x) b) ->
      (exists w, derives Gd0 (V x) w) /\ (x = CV s \/ vplus out (CV s) x).
    Proof.
      intros [[b Hb]|[h [b [Hb Hx]]]].
      - destruct x as [A|a|k]; [| |destruct (CC_useful k b Hb) as [Gn Rc]; auto];
          (assert (K : known _) by (eapply nocc_head_known; [|exact Hb]; exact I); split; [now apply known_generating|now apply known_reachable]).
      - destruct x as [A|a|k]; [| |];
          try (assert (K : known _) by (eapply nocc_body_known; [exact Hb|exact Hx|]; exact I); split; [now apply known_generating|now apply known_reachable]).
        destruct J2 as [I2 _]. destruct (I2 h b Hb) as [Fn|[Y [k0 [bb [-> [NY Hbb]]]]]].
        + rewrite Forall_forall in Fn. destruct (Fn _ Hx).
        + destruct Hx as [Hx|[Hx|[]]]; [subst Y; destruct NY|]. inversion Hx; subst k0. destruct (CC_useful k bb Hbb) as [Gn Rc]. auto.
    Qed.
  End WithInv.
End U.

Section Final.
  Context {Vr : Type} `{EqDec Vr}.

  Lemma vplus_reach (C : cfg (cvar Vr)) a x : is_normal_form C = true -> vplus (g_prods C) a x -> reach (var_succs C) [a] x.
  Proof.
    intros Hnf P.
    assert (E : forall y z, vedge (g_prods C) y z -> In z (var_succs C y)).
    { intros y z [Y [Z [Hp Hz]]]. apply var_succs_In. destruct (nf_prod C Hnf _ _ Hp) as [[B1 [C1 E0]]|[a0 E0]]; [|discriminate].
      inversion E0; subst. exists B1, C1. split; [exact Hp|]. destruct Hz as [Hz|Hz]; inversion Hz; auto. }
    induction P as [y z Ed|y z z' _ IH Ed]; [apply reach_step with y; [apply reach_init; now left|now apply E]|apply reach_step with z; [exact IH|now apply E]].
  Qed.

  Lemma fast_useful (G : cfg Vr) s : cfg_wf G -> fast_path_ok G = true -> g_start G = Some s ->
    nf_vars_useful (mkcfg [] [] (Some (CV s)) (decompose (single_terminals G))) = true.
  Proof.
    intros W F Es. set (out := decompose (single_terminals G)). set (C := mkcfg [] [] (Some (CV s)) out).
    assert (Hnf : is_normal_form C = true) by (pose proof (fast_nf G F) as X; rewrite Es in X; exact X).
    destruct (decompose_INV2 (single_terminals G) (single_terminals_nocc G)) as [idx [done [J J2]]].
    unfold nf_vars_useful. change (g_start C) with (Some (@CV Vr s)). change (g_prods C) with out.
    apply forallb_forall. intros x Hx. rewrite dedup_In in Hx. apply in_app_or in Hx.
    assert (Occ : (exists b, In (x, b) out) \/ (exists h b, In (h, b) out /\ In (V x) b)).
    { destruct Hx as [Hx|Hx].
      - apply in_map_iff in Hx. destruct Hx as [[h b] [<- Hp]]. left. eauto.
      - apply in_flat_map in Hx. destruct Hx as [[h b] [Hp Hb]]. cbn [snd] in Hb. unfold body_vars in Hb. apply in_flat_map in Hb.
        destruct Hb as [[y|a] [HX Hb]]; [|destruct Hb]. destruct Hb as [<-|[]]. right. eauto. }
    destruct (out_var_useful G W F s Es idx done J J2 x Occ) as [[w Dw] Rc].
    apply andb_true_iff. split.
    - apply mem_In. apply generating_vars_spec. exists w.
      apply (proj1 (derives_same_prods (Gd [] [] (Some (CV s)) (single_terminals G)) C eq_refl) _ _ Dw).
    - apply orb_true_iff. destruct Rc as [->|P]; [left; apply eqb_refl|right]. apply mem_In. apply closure_spec.
      + intros y _ z Hz. right. now apply (succ_in_vs C) in Hz.
      + intros y [<-|[]]. now left.
      + now apply vplus_reach.
  Qed.

  Lemma mkcfg_wf vars terms start (prods : list (Vr * list (symb Vr))) : cfg_wf (mkcfg vars terms start prods).
  Proof.
    unfold cfg_wf. split; [cbn [mkcfg g_vars]; apply dedup_NoDup|]. split; [cbn [mkcfg g_terms]; apply dedup_NoDup|].
    split; [intros A body; apply mkcfg_heads|]. split; [intros A body B; apply mkcfg_bodies|]. split.
    - intros A body a Hp Ha. cbn [mkcfg g_terms g_prods] in *. apply dedup_In. apply in_or_app. right. apply in_flat_map. exists (A, body). split; [exact Hp|].
      cbn [snd]. unfold body_terms. apply in_flat_map. exists (T a). split; [exact Ha|now left].
    - intros s0 E0. cbn [mkcfg g_vars g_start] in *. subst start. apply dedup_In. apply in_or_app. right. apply in_or_app. left. now left.
  Qed.

  Theorem to_normal_form_useful fuel : forall (G : cfg Vr) C, cfg_wf G -> g_start G <> None -> to_normal_form fuel G = Some C -> nf_vars_useful C = true.
  Proof.
    assert (Empty : forall G : cfg Vr, g_start G <> None -> g_prods G = [] -> nf_vars_useful (lift_cfg G) = true).
    { intros G Hs Ep. unfold nf_vars_useful, lift_cfg. cbn [g_start g_prods]. destruct (g_start G); [|congruence]. cbn [option_map]. rewrite Ep. reflexivity. }
    induction fuel as [|f IH]; intros G C W Hs E; cbn [to_normal_form] in E; destruct (fast_path_ok G) eqn:F.
    - inversion E; subst. destruct (g_start G) as [s|] eqn:Es; [|congruence]. now apply fast_useful.
    - destruct (g_prods G) as [|p r] eqn:Ep; [|discriminate]. inversion E; subst. now apply Empty.
    - inversion E; subst. destruct (g_start G) as [s|] eqn:Es; [|congruence]. now apply fast_useful.
    - destruct (g_prods G) as [|p r] eqn:Ep; [inversion E; subst; now apply Empty|].
      apply (IH (cleanup G) C); [unfold cleanup, remove_useless; apply mkcfg_wf| |exact E].
      unfold cleanup. fold (u_G2 (eliminate_unit (remove_useless (remove_epsilon (remove_useless G))))). rewrite G2_start.
      change (g_start (eliminate_unit (remove_useless (remove_epsilon (remove_useless G))))) with (g_start (remove_useless (remove_epsilon (remove_useless G)))).
      fold (u_G2 (remove_epsilon (remove_useless G))). rewrite G2_start. change (g_start (remove_epsilon (remove_useless G))) with (g_start (remove_useless G)).
      fold (u_G2 G). rewrite G2_start. exact Hs.
  Qed.

  (* is_finite decides finiteness, for every registered grammar with a start symbol *)
  Theorem is_finite_correct (fuel : nat) (G : cfg Vr) (b : bool) : cfg_wf G -> g_start G <> None ->
    is_finite fuel G = Some b -> (b = true <-> lang_finite G).
  Proof.
    intros W Hs Ef. pose proof Ef as Ef'. unfold is_finite in Ef'. destruct (to_normal_form fuel G) as [C|] eqn:En; [|discriminate].
    apply (is_finite_spec fuel G C b En (to_normal_form_useful fuel G C W Hs En) Ef).
  Qed.
End Final.
