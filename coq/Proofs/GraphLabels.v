From Coq Require Import List Bool NArith Arith Lia.
From PFL Require Import Model.GraphLabels.
Import ListNotations.

Lemma prefixb_app : forall p r, prefixb p (p ++ r) = true.
Proof. induction p as [|a p IH]; intros r; cbn; [reflexivity|]. rewrite N.eqb_refl. apply IH. Qed.

Lemma occ_app_ge : forall sep x y, occ sep y <= occ sep (x ++ y).
Proof. intros sep x y; induction x as [|a x IH]; cbn [app occ]; lia. Qed.

Lemma split_skip : forall sep x cur r, split_aux sep (length x) cur (x ++ r) = split_aux sep 0 cur r.
Proof.
  intros sep x; induction x as [|a x IH]; intros cur r; cbn [length app]; [reflexivity|].
  cbn [split_aux]. apply IH.
Qed.

Lemma split_no_occ : forall sep s cur, sep <> [] -> occ sep s = 0 -> split_aux sep 0 cur s = [rev cur ++ s].
Proof.
  intros sep s; induction s as [|c s IH]; intros cur Hne H.
  - cbn. now rewrite app_nil_r.
  - cbn [occ] in H. cbn [split_aux]. destruct (prefixb sep (c :: s)) eqn:E; [lia|].
    rewrite IH by (auto; lia). cbn [rev]. now rewrite <- app_assoc.
Qed.

Lemma occ_sep_ge : forall sep x r, sep <> [] -> 1 + occ sep r <= occ sep (x ++ sep ++ r).
Proof.
  intros sep x r Hne. etransitivity; [|apply occ_app_ge].
  destruct sep as [|c sep']; [congruence|].
  pose proof (prefixb_app (c :: sep') r) as P. cbn [app] in *. cbn [occ]. rewrite P.
  pose proof (occ_app_ge (c :: sep') sep' r). lia.
Qed.

Lemma split_first : forall sep r a cur, sep <> [] -> occ sep (a ++ sep ++ r) = 1 ->
  split_aux sep 0 cur (a ++ sep ++ r) = (rev cur ++ a) :: split_aux sep 0 [] r.
Proof.
  intros sep r a; induction a as [|x a IH]; intros cur Hne H.
  - destruct sep as [|c sep']; [congruence|]. rewrite app_nil_r.
    pose proof (prefixb_app (c :: sep') r) as P. cbn [app] in *. cbn [split_aux]. rewrite P.
    cbn [length]. rewrite Nat.sub_succ, Nat.sub_0_r. now rewrite split_skip.
  - cbn [app] in *. cbn [occ] in H. pose proof (occ_sep_ge sep a r Hne) as G.
    cbn [split_aux]. destruct (prefixb sep (x :: a ++ sep ++ r)) eqn:E; [lia|].
    rewrite IH by (auto; lia). cbn [rev]. now rewrite <- app_assoc.
Qed.

(* the separator occurs exactly once in a ++ sep ++ r  ->  split gives back exactly [a; r] *)
Theorem split_unique : forall sep a r, sep <> [] -> occ sep (a ++ sep ++ r) = 1 -> split sep (a ++ sep ++ r) = [a; r].
Proof.
  intros sep a r Hne H. unfold split. rewrite split_first by assumption. cbn [rev app].
  pose proof (occ_sep_ge sep a r Hne) as G. rewrite split_no_occ by (auto; lia). reflexivity.
Qed.

(* conversely a second occurrence is fatal: split then has more than two parts or cuts elsewhere; stated as the exact
   characterisation "split gives [a; r] only if no occurrence starts inside a" is not needed for the round trip *)

Theorem fst_label_roundtrip : forall a b, occ sep_arrow (fst_label a b) = 1 -> read_fst_label (fst_label a b) = Some (a, b).
Proof.
  intros a b H. unfold read_fst_label, split2, fst_label in *. rewrite split_unique; [reflexivity|discriminate|assumption].
Qed.

Theorem pda_label_roundtrip : forall a b c,
  occ sep_arrow (pda_label a b c) = 1 -> occ sep_slash (b ++ sep_slash ++ c) = 1 ->
  read_pda_label (pda_label a b c) = Some (a, b, c).
Proof.
  intros a b c H1 H2. unfold read_pda_label, split2, pda_label in *.
  rewrite split_unique; [|discriminate|assumption]. rewrite split_unique; [reflexivity|discriminate|assumption].
Qed.

(* non-vacuity: the label of the transition  ("a", "Z") -> ["A", "Z"]  meets both premises *)
Example pda_label_premises_hold :
  let a := [34; 97; 34]%N in let b := [34; 90; 34]%N in let c := [91; 34; 65; 34; 44; 32; 34; 90; 34; 93]%N in
  occ sep_arrow (pda_label a b c) = 1 /\ occ sep_slash (b ++ sep_slash ++ c) = 1.
Proof. vm_compute. split; reflexivity. Qed.

(* the guard is needed: an input symbol whose text contains the separator is not read back (ValueError in pyformlang) *)
Example pda_label_guard_needed :
  let a := [34; 120; 32; 45; 62; 32; 121; 34]%N in  (* "x -> y" *)
  read_pda_label (pda_label a [34; 90; 34]%N [91; 93]%N) = None.
Proof. vm_compute. reflexivity. Qed.

(* a stack symbol ending in " /" silently shifts the cut: the first " / " is found one character early *)
Example pda_label_overlap_misread :
  let b := [34; 90; 32; 47]%N in
  read_pda_label (pda_label [34; 97; 34]%N b [91; 93]%N) <> Some ([34; 97; 34]%N, b, [91; 93]%N).
Proof. vm_compute. discriminate. Qed.
