From Coq Require Import List Bool NArith Lia.
From PFL Require Import Base.ListSet Base.Closure Spec.Enfa Model.Enfa Model.EnfaOps Proofs.EnfaRuns Proofs.EnfaEmpty
  Oracle.EnfaEquiv Oracle.EnfaEquivSound Oracle.EnfaEquivComplete Oracle.EnfaMinimal Proofs.EnfaIso.
From PFL Require Import Model.Minimize.
Import ListNotations.

Lemma is_empty_false {Q} `{EqDec Q} (B : enfa Q) : is_empty B = false -> exists w, Lang B w.
Proof.
  intros E. unfold is_empty in E. apply negb_false_iff in E. apply existsb_exists in E. destruct E as [f [Hf Hm]].
  apply mem_In in Hm. apply closure_spec in Hf.
  - apply reach_run in Hf. destruct Hf as [s [w [Hs R]]]. exists w, s, f. auto.
  - intros x Hx y Hy. apply all_succs_In in Hy. destruct Hy as [l Hd]. apply in_or_app. right. unfold targets.
    apply in_map_iff. exists (x, l, y). auto.
  - intros x Hx. apply in_or_app. now left.
Qed.

Lemma nonempty_b {Q} `{EqDec Q} (B : enfa Q) : negb (is_empty B) = true <-> exists w, Lang B w.
Proof.
  split.
  - intros E. apply negb_true_iff in E. now apply is_empty_false.
  - intros [w L]. destruct (is_empty B) eqn:E; [|reflexivity]. exfalso. apply (proj1 (is_empty_spec B) E w L).
Qed.

Lemma find_ext {X} (f g : X -> bool) l : (forall x, In x l -> f x = g x) -> find f l = find g l.
Proof.
  induction l as [|x l IH]; intros E; [reflexivity|]. simpl. rewrite <- (E x (or_introl eq_refl)).
  destruct (f x); [reflexivity|]. apply IH. intros y Hy. apply E. now right.
Qed.

Section P.
  Context {Q : Type} `{EqDec Q} `{Canon Q}.
  Variable A : enfa Q.
  Variable n : nat.
  Hypothesis D : is_dfa A.
  Hypothesis W : wf A.
  Hypothesis Hfuel : forall p q, enfa_equiv (reroot A p) (reroot A q) n <> None.
  Notation M := (minimize_model A n).
  Notation liveA := (live A).
  Notation repA := (rep A n).

  Definition Lq (q : Q) (w : list N) : Prop := exists f, In f (e_finals A) /\ run A q w f.
  Definition eqv (p q : Q) : Prop := forall w, Lq p w <-> Lq q w.

  Lemma eqv_refl p : eqv p p. Proof. intros w. tauto. Qed.
  Lemma eqv_sym p q : eqv p q -> eqv q p. Proof. intros E w. symmetry. apply E. Qed.
  Lemma eqv_trans p q r : eqv p q -> eqv q r -> eqv p r. Proof. intros E1 E2 w. rewrite (E1 w). apply E2. Qed.

  Lemma equivb_spec p q : equivb A n p q = true <-> eqv p q.
  Proof.
    unfold equivb. destruct (enfa_equiv (reroot A p) (reroot A q) n) as [[|]|] eqn:E.
    - split; [intros _|reflexivity]. pose proof (enfa_equiv_sound _ _ n E) as L. intros w. unfold Lq. rewrite <- !lang_reroot. apply L.
    - split; [discriminate|]. intros Hq. exfalso. apply (enfa_equiv_complete _ _ n E). intros w. rewrite !lang_reroot. apply Hq.
    - exfalso. eapply Hfuel; eauto.
  Qed.

  Lemma Lq_nil q : Lq q [] <-> In q (e_finals A).
  Proof.
    destruct D as (E & _). split.
    - intros (f & Hf & R). now rewrite (run_nil_eps_free A _ _ E R).
    - intros Hq. exists q. split; [exact Hq|apply run_nil].
  Qed.
  Lemma Lq_cons q a w : Lq q (a :: w) <-> exists q', In (q, Some a, q') (e_delta A) /\ Lq q' w.
  Proof.
    destruct D as (E & _). split.
    - intros (f & Hf & R). inversion R as [|? ? ? ? Hd _|? ? q' ? ? Hd R']; subst; [destruct (E _ _ Hd)|].
      exists q'. split; [exact Hd|]. exists f. auto.
    - intros (q' & Hd & f & Hf & R). exists f. split; [exact Hf|]. eapply run_sym; eauto.
  Qed.

  Lemma eqv_step p p' a q : eqv p p' -> In (p, Some a, q) (e_delta A) -> (exists w, Lq q w) ->
    exists q', In (p', Some a, q') (e_delta A) /\ eqv q q'.
  Proof.
    intros Ep Hd (w0 & L0). destruct D as (_ & F & _).
    assert (L1 : Lq p' (a :: w0)) by (apply Ep; apply Lq_cons; eauto).
    apply Lq_cons in L1. destruct L1 as (q' & Hd' & L1). exists q'. split; [exact Hd'|]. intros w. split; intros L.
    - assert (L2 : Lq p' (a :: w)) by (apply Ep; apply Lq_cons; eauto).
      apply Lq_cons in L2. destruct L2 as (q2 & Hd2 & L2). now rewrite (F _ _ _ _ Hd' Hd2).
    - assert (L2 : Lq p (a :: w)) by (apply Ep; apply Lq_cons; eauto).
      apply Lq_cons in L2. destruct L2 as (q2 & Hd2 & L2). now rewrite (F _ _ _ _ Hd Hd2).
  Qed.

  Lemma run_refinal q x w y : run (refinal A q) x w y <-> run A x w y.
  Proof. split; apply run_ext; intros t Ht; exact Ht. Qed.

  Lemma live_spec q : In q liveA <->
    In q (e_states A) /\ (exists s w, In s (e_starts A) /\ run A s w q) /\ (exists w, Lq q w).
  Proof.
    unfold live. rewrite filter_In, dedup_In. unfold liveb. rewrite andb_true_iff, !nonempty_b. split.
    - intros (Hq & (w1 & s & f & Hs & [<-|[]] & R1) & (w2 & L2)). split; [exact Hq|]. split.
      + exists s, w1. split; [exact Hs|]. now apply run_refinal in R1.
      + exists w2. apply lang_reroot in L2. exact L2.
    - intros (Hq & (s & w1 & Hs & R1) & (w2 & L2)). split; [exact Hq|]. split.
      + exists w1, s, q. split; [exact Hs|]. split; [now left|]. now apply run_refinal.
      + exists w2. apply lang_reroot. exact L2.
  Qed.

  Lemma rep_live q : In q liveA -> In (repA q) liveA /\ eqv (repA q) q.
  Proof.
    intros Hq. unfold rep. destruct (find (fun r => equivb A n r q) liveA) as [r|] eqn:E.
    - apply find_some in E. destruct E as (Hr & Er). split; [exact Hr|]. now apply equivb_spec.
    - exfalso. pose proof (find_none _ _ E q Hq) as X. simpl in X.
      assert (Y : equivb A n q q = true) by (apply equivb_spec, eqv_refl). congruence.
  Qed.
  Lemma rep_eq p q : In p liveA -> In q liveA -> (repA p = repA q <-> eqv p q).
  Proof.
    intros Hp Hq. destruct (rep_live p Hp) as (_ & Ep). destruct (rep_live q Hq) as (_ & Eq). split.
    - intros E. rewrite E in Ep. eapply eqv_trans; [apply eqv_sym; exact Ep|exact Eq].
    - intros E. unfold rep. rewrite (find_ext (fun r => equivb A n r p) (fun r => equivb A n r q) liveA).
      + destruct (find (fun r => equivb A n r q) liveA) eqn:F; [reflexivity|]. exfalso.
        pose proof (find_none _ _ F q Hq) as X. simpl in X.
        assert (Y : equivb A n q q = true) by (apply equivb_spec, eqv_refl). congruence.
      + intros r _. destruct (equivb A n r q) eqn:X.
        * apply equivb_spec. apply equivb_spec in X. eapply eqv_trans; [exact X|apply eqv_sym; exact E].
        * destruct (equivb A n r p) eqn:Y; [|reflexivity]. apply equivb_spec in Y.
          assert (Z : equivb A n r q = true) by (apply equivb_spec; eapply eqv_trans; eauto). congruence.
  Qed.

  (* ---- the components of the quotient ---- *)
  Lemma M_edge x l y : In (x, l, y) (e_delta M) <->
    exists p a q, l = Some a /\ x = repA p /\ y = repA q /\ In (p, Some a, q) (e_delta A) /\ In p liveA /\ In q liveA.
  Proof.
    unfold minimize_model. cbn [e_delta]. rewrite dedup_In, in_flat_map. split.
    - intros ([[p [a|]] q] & Hd & Hin); [|destruct Hin].
      destruct (mem p liveA && mem q liveA) eqn:E; [|destruct Hin]. destruct Hin as [Hin|[]]. inversion Hin; subst.
      apply andb_true_iff in E. destruct E as (E1 & E2). apply mem_In in E1. apply mem_In in E2.
      exists p, a, q. auto 10.
    - intros (p & a & q & -> & -> & -> & Hd & Hp & Hq). exists (p, Some a, q). split; [exact Hd|].
      apply (proj2 (mem_In _ _)) in Hp. apply (proj2 (mem_In _ _)) in Hq. rewrite Hp, Hq. now left.
  Qed.
  Lemma M_state x : In x (e_states M) <-> exists p, In p liveA /\ x = repA p.
  Proof.
    unfold minimize_model. cbn [e_states]. rewrite dedup_In, in_map_iff. split; intros (p & X & Y); exists p; auto.
  Qed.
  Lemma M_start x : In x (e_starts M) <-> exists s, In s (e_starts A) /\ In s liveA /\ x = repA s.
  Proof.
    unfold minimize_model. cbn [e_starts]. rewrite dedup_In, in_map_iff. split.
    - intros (s & <- & Hs). apply filter_In in Hs. destruct Hs as (Hs & Hm). apply mem_In in Hm. eauto.
    - intros (s & Hs & Hl & ->). exists s. split; [reflexivity|]. apply filter_In. split; [exact Hs|now apply mem_In].
  Qed.
  Lemma M_final x : In x (e_finals M) <-> exists f, In f (e_finals A) /\ In f liveA /\ x = repA f.
  Proof.
    unfold minimize_model. cbn [e_finals]. rewrite dedup_In, in_map_iff. split.
    - intros (s & <- & Hs). apply filter_In in Hs. destruct Hs as (Hs & Hm). apply mem_In in Hm. eauto.
    - intros (s & Hs & Hl & ->). exists s. split; [reflexivity|]. apply filter_In. split; [exact Hs|now apply mem_In].
  Qed.

  Lemma live_step p a q : In p liveA -> In (p, Some a, q) (e_delta A) -> (exists w, Lq q w) -> In q liveA.
  Proof.
    intros Hp Hd Hl. apply live_spec in Hp. destruct Hp as (Hp & (s & w & Hs & R) & _). apply live_spec. split.
    - apply (proj1 W _ _ _ Hd).
    - split; [|exact Hl]. exists s, (w ++ [a]). split; [exact Hs|]. eapply run_app; [exact R|]. eapply run_sym; [exact Hd|apply run_nil].
  Qed.

  Lemma fwd p w q : run A p w q -> In p liveA -> (exists w', Lq q w') -> run M (repA p) w (repA q) /\ In q liveA.
  Proof.
    destruct D as (E & _). induction 1 as [q|q q' w r Hd R IH|q a q' w r Hd R IH]; intros Hp Hl.
    - split; [apply run_nil|exact Hp].
    - destruct (E _ _ Hd).
    - assert (Hq' : In q' liveA).
      { apply (live_step q a q' Hp Hd). destruct Hl as (w' & f & Hf & R'). exists (w ++ w'), f. split; [exact Hf|]. eapply run_app; eauto. }
      destruct (IH Hq' Hl) as (IH1 & IH2). split; [|exact IH2].
      eapply run_sym; [|exact IH1]. apply M_edge. exists q, a, q'. auto 10.
  Qed.

  Lemma bwd r w r' : run M r w r' -> In r' (e_finals M) -> forall p, In p liveA -> repA p = r -> Lq p w.
  Proof.
    induction 1 as [r|r r2 w r' Hd R IH|r a r2 w r' Hd R IH]; intros Hf p Hp Er.
    - apply M_final in Hf. destruct Hf as (f & Hf & Hfl & Ef). apply Lq_nil in Hf.
      assert (E : eqv p f) by (apply rep_eq; auto; congruence). now apply E.
    - apply M_edge in Hd. destruct Hd as (p0 & a & q0 & Ea & _). discriminate.
    - apply M_edge in Hd. destruct Hd as (p0 & a' & q0 & Ea & Ex & Ey & Hd & Hp0 & Hq0). inversion Ea; subst a'.
      assert (E : eqv p0 p) by (apply rep_eq; auto; congruence).
      assert (Hl0 : exists w0, Lq q0 w0) by (apply live_spec in Hq0; tauto).
      destruct (eqv_step p0 p a q0 E Hd Hl0) as (q & Hdq & Eq).
      assert (Hq : In q liveA).
      { apply (live_step p a q Hp Hdq). destruct Hl0 as (w0 & L0). exists w0. now apply Eq. }
      apply Lq_cons. exists q. split; [exact Hdq|]. apply (IH Hf q Hq). rewrite Ey. symmetry. apply rep_eq; auto.
  Qed.

  Lemma M_lang_from p w : In p liveA -> ((exists f', In f' (e_finals M) /\ run M (repA p) w f') <-> Lq p w).
  Proof.
    intros Hp. split.
    - intros (f' & Hf' & R). eapply bwd; eauto.
    - intros (f & Hf & R). assert (Hl : exists w', Lq f w') by (exists [], f; split; [exact Hf|apply run_nil]).
      destruct (fwd p w f R Hp Hl) as (R' & Hfl). exists (repA f). split; [|exact R']. apply M_final. eauto.
  Qed.

  Lemma start_live s w f : In s (e_starts A) -> In f (e_finals A) -> run A s w f -> In s liveA.
  Proof.
    intros Hs Hf R. apply live_spec. split; [apply (proj1 (proj2 (proj2 W))); exact Hs|]. split.
    - exists s, []. split; [exact Hs|apply run_nil].
    - exists w, f. auto.
  Qed.

  Theorem minimize_lang : lang_eq M A.
  Proof.
    intros w. split.
    - intros (s' & f' & Hs' & Hf' & R). apply M_start in Hs'. destruct Hs' as (s & Hs & Hsl & ->).
      assert (L : Lq s w) by (apply M_lang_from; eauto). destruct L as (f & Hf & R'). exists s, f. auto.
    - intros (s & f & Hs & Hf & R). pose proof (start_live s w f Hs Hf R) as Hsl.
      assert (L : Lq s w) by (exists f; auto). apply (M_lang_from s w Hsl) in L. destruct L as (f' & Hf' & R').
      exists (repA s), f'. split; [apply M_start; eauto|]. auto.
  Qed.

  Theorem minimize_dfa : is_dfa M.
  Proof.
    destruct D as (E & F & O). split; [|split].
    - intros p q Hd. apply M_edge in Hd. destruct Hd as (? & ? & ? & X & _). discriminate.
    - intros x a y y' H1 H2. apply M_edge in H1. apply M_edge in H2.
      destruct H1 as (p1 & a1 & q1 & Ea1 & Ex1 & Ey1 & Hd1 & Hp1 & Hq1).
      destruct H2 as (p2 & a2 & q2 & Ea2 & Ex2 & Ey2 & Hd2 & Hp2 & Hq2). inversion Ea1; inversion Ea2; subst a1 a2.
      assert (Ep : eqv p1 p2) by (apply rep_eq; auto; congruence).
      assert (Hl1 : exists w0, Lq q1 w0) by (apply live_spec in Hq1; tauto).
      destruct (eqv_step p1 p2 a q1 Ep Hd1 Hl1) as (q' & Hd' & Eq). rewrite (F _ _ _ _ Hd' Hd2) in Eq.
      rewrite Ey1, Ey2. apply rep_eq; auto.
    - intros x y Hx Hy. apply M_start in Hx. apply M_start in Hy. destruct Hx as (s & Hs & _ & ->). destruct Hy as (s' & Hs' & _ & ->).
      now rewrite (O _ _ Hs Hs').
  Qed.

  Theorem minimize_wf : wf M.
  Proof.
    split; [|split; [|split]].
    - intros p l q Hd. apply M_edge in Hd. destruct Hd as (p0 & a & q0 & _ & -> & -> & _ & Hp & Hq). split; apply M_state; eauto.
    - intros p a q Hd. apply M_edge in Hd. destruct Hd as (p0 & a' & q0 & Ea & _ & _ & Hd & _). inversion Ea; subst.
      apply (proj1 (proj2 W) _ _ _ Hd).
    - intros x Hx. apply M_start in Hx. destruct Hx as (s & _ & Hl & ->). apply M_state. eauto.
    - intros x Hx. apply M_final in Hx. destruct Hx as (s & _ & Hl & ->). apply M_state. eauto.
  Qed.

  Theorem minimize_trim : trim M.
  Proof.
    intros x Hx. apply M_state in Hx. destruct Hx as (p & Hp & ->). pose proof Hp as Hp'. apply live_spec in Hp'.
    destruct Hp' as (_ & _ & (w & L)). apply (M_lang_from p w Hp) in L. destruct L as (f' & Hf' & R). exists w, f'. auto.
  Qed.

  Theorem minimize_reduced : reduced M.
  Proof.
    split.
    - intros x Hx. apply M_state in Hx. destruct Hx as (p & Hp & ->). pose proof Hp as Hp'. apply live_spec in Hp'.
      destruct Hp' as (_ & (s & w & Hs & R) & Hl).
      assert (Hsl : In s liveA).
      { apply live_spec. split; [apply (proj1 (proj2 (proj2 W))); exact Hs|]. split; [exists s, []; split; [exact Hs|apply run_nil]|].
        destruct Hl as (w' & f & Hf & R'). exists (w ++ w'), f. split; [exact Hf|]. eapply run_app; eauto. }
      destruct (fwd s w p R Hsl Hl) as (R' & _). exists (repA s), w. split; [apply M_start; eauto|exact R'].
    - intros x y Hx Hy Ne LE. apply M_state in Hx. apply M_state in Hy. destruct Hx as (p & Hp & ->). destruct Hy as (q & Hq & ->).
      apply Ne. apply rep_eq; auto. intros w. rewrite <- (M_lang_from p w Hp), <- (M_lang_from q w Hq).
      specialize (LE w). rewrite !lang_reroot in LE. exact LE.
  Qed.
End P.

(* any deterministic, reduced, trim automaton with the language of A (what the certificates establish for the automaton pyformlang
   returns) is isomorphic to the model's result *)
Theorem minimize_canonical {Q Q2 : Type} `{EqDec Q} `{Canon Q} `{EqDec Q2} (A : enfa Q) (n : nat) (B : enfa Q2) :
  is_dfa A -> wf A -> (forall p q, enfa_equiv (reroot A p) (reroot A q) n <> None) ->
  is_dfa B -> wf B -> reduced B -> trim B -> lang_eq B A ->
  isomorphism (minimize_model A n) B (Rel (minimize_model A n) B).
Proof.
  intros D W Hf DB WB RB TB LE. apply minimal_dfa_unique.
  - now apply minimize_dfa.
  - exact DB.
  - now apply minimize_wf.
  - exact WB.
  - now apply minimize_reduced.
  - exact RB.
  - now apply minimize_trim.
  - exact TB.
  - intros w. rewrite (minimize_lang A n D W Hf w). symmetry. apply LE.
Qed.
