(* The translation of the Python-regex subset to plain regular expressions agrees with a direct semantics of that subset (C07). *)
From Coq Require Import List Bool Arith NArith Lia.
From PFL Require Import Spec.Regex Model.PyRegex.
Import ListNotations.

Section S.
  Variable universe : list N.

  (* k-fold concatenation of words of a language *)
  Inductive pow (L : list N -> Prop) : nat -> list N -> Prop :=
  | pow0 : pow L 0 []
  | powS k u v : L u -> pow L k v -> pow L (S k) (u ++ v).

  (* direct semantics: which strings (over the universe string.printable) a pattern of the subset matches entirely *)
  Inductive pyden : pyre -> list N -> Prop :=
  | pd_lit c : pyden (PLit c) [c]
  | pd_dot c : In c universe -> c <> newline -> pyden PDot [c]
  | pd_set neg rs c : In c universe -> in_ranges c rs = negb neg -> pyden (PSet neg rs) [c]
  | pd_cat a b u v : pyden a u -> pyden b v -> pyden (PCat a b) (u ++ v)
  | pd_altl a b u : pyden a u -> pyden (PAlt a b) u
  | pd_altr a b u : pyden b u -> pyden (PAlt a b) u
  | pd_star a k w : pow (pyden a) k w -> pyden (PStar a) w
  | pd_plus a k w : pow (pyden a) (S k) w -> pyden (PPlus a) w
  | pd_opt0 a : pyden (POpt a) []
  | pd_opt1 a u : pyden a u -> pyden (POpt a) u
  | pd_rep a m n k w : m <= k -> k <= m + (n - m) -> pow (pyden a) k w -> pyden (PRep a m n) w.

  Lemma pow_ext (L L' : list N -> Prop) k w : (forall u, L u -> L' u) -> pow L k w -> pow L' k w.
  Proof. intros E P. induction P; [constructor|constructor; auto]. Qed.

  Lemma den_alt_of cs w : den (alt_of cs) w <-> exists c, In c cs /\ w = [c].
  Proof.
    induction cs as [|c [|d r] IH]; cbn [alt_of].
    - split; [intros D; inversion D|intros [c [[] _]]].
    - split; [intros D; inversion D; subst; exists c; split; [now left|reflexivity]|intros [x [[<-|[]] ->]]; constructor].
    - split.
      + intros D. inversion D as [| | |? ? ? D1|? ? ? D1| |]; subst.
        * inversion D1; subst. exists c. split; [now left|reflexivity].
        * apply IH in D1. destruct D1 as [x [Hx ->]]. exists x. split; [now right|reflexivity].
      + intros [x [[<-|Hx] ->]]; [apply d_altl; constructor|apply d_altr; apply IH; eauto].
  Qed.

  Lemma den_rep r k w : den (rep r k) w <-> pow (den r) k w.
  Proof.
    revert w. induction k as [|k IH]; intros w; cbn [rep].
    - split; [intros D; inversion D; constructor|intros P; inversion P; constructor].
    - split.
      + intros D. inversion D; subst. constructor; [assumption|now apply IH].
      + intros P. inversion P; subst. constructor; [assumption|now apply IH].
  Qed.
  Lemma den_opt_rep r k w : den (opt_rep r k) w <-> exists j, j <= k /\ pow (den r) j w.
  Proof.
    revert w. induction k as [|k IH]; intros w; cbn [opt_rep].
    - split; [intros D; inversion D; exists 0; split; [lia|constructor]|intros [j [Hj P]]; assert (j = 0) by lia; subst; inversion P; constructor].
    - split.
      + intros D. inversion D as [| |? ? u v Du Dv| | | |]; subst. apply IH in Dv. destruct Dv as [j [Hj P]].
        inversion Du as [| | |? ? ? D1|? ? ? D1| |]; subst.
        * exists (S j). split; [lia|now constructor].
        * inversion D1; subst. exists j. split; [lia|exact P].
      + intros [j [Hj P]]. destruct j as [|j].
        * inversion P; subst. change (@nil N) with (@nil N ++ []). constructor; [apply d_altr; constructor|apply IH; exists 0; split; [lia|constructor]].
        * inversion P; subst. constructor; [now apply d_altl|apply IH; exists j; split; [lia|assumption]].
  Qed.
  Lemma pow_app (L : list N -> Prop) j k u v : pow L j u -> pow L k v -> pow L (j + k) (u ++ v).
  Proof. intros P Q. induction P as [|j u1 u2 Hu _ IH]; [exact Q|]. cbn [Nat.add]. rewrite <- app_assoc. now constructor. Qed.
  Lemma den_star r w : den (RStar r) w <-> exists k, pow (den r) k w.
  Proof.
    split.
    - intros D. remember (RStar r) as s eqn:Es. induction D as [| | | | |r0|r0 u v Du _ Dv IH]; try discriminate; inversion Es; subst.
      + exists 0. constructor.
      + destruct (IH eq_refl) as [k P]. exists (S k). now constructor.
    - intros [k P]. induction P; [constructor|now constructor].
  Qed.

  Theorem py_translate_sem p : forall w, den (py_translate universe p) w <-> pyden p w.
  Proof.
    induction p as [c| |neg rs|a IHa b IHb|a IHa b IHb|a IHa|a IHa|a IHa|a IHa m n]; intros w; cbn [py_translate].
    - split; [intros D; inversion D; constructor|intros D; inversion D; constructor].
    - rewrite den_alt_of. split.
      + intros [c [Hc ->]]. apply filter_In in Hc. destruct Hc as [Hu Hn]. apply negb_true_iff in Hn. apply N.eqb_neq in Hn. now constructor.
      + intros D. inversion D; subst. exists c. split; [|reflexivity]. apply filter_In. split; [assumption|]. apply negb_true_iff. now apply N.eqb_neq.
    - destruct neg; rewrite den_alt_of; split.
      + intros [c [Hc ->]]. apply filter_In in Hc. destruct Hc as [Hu Hn]. apply negb_true_iff in Hn. now constructor.
      + intros D. inversion D; subst. exists c. split; [|reflexivity]. apply filter_In. split; [assumption|]. apply negb_true_iff. assumption.
      + intros [c [Hc ->]]. apply filter_In in Hc. destruct Hc as [Hu Hn]. now constructor.
      + intros D. inversion D; subst. exists c. split; [|reflexivity]. apply filter_In. split; assumption.
    - split.
      + intros D. inversion D; subst. constructor; [now apply IHa|now apply IHb].
      + intros D. inversion D; subst. constructor; [now apply IHa|now apply IHb].
    - split.
      + intros D. inversion D; subst; [apply pd_altl; now apply IHa|apply pd_altr; now apply IHb].
      + intros D. inversion D; subst; [apply d_altl; now apply IHa|apply d_altr; now apply IHb].
    - rewrite den_star. split.
      + intros [k P]. apply pd_star with k. apply (pow_ext _ _ _ _ (fun u => proj1 (IHa u)) P).
      + intros D. inversion D; subst. exists k. apply (pow_ext _ _ _ _ (fun u => proj2 (IHa u))). assumption.
    - split.
      + intros D. inversion D as [| |? ? u v Du Dv| | | |]; subst. apply den_star in Dv. destruct Dv as [k P]. apply pd_plus with k.
        constructor; [now apply IHa|]. apply (pow_ext _ _ _ _ (fun u0 => proj1 (IHa u0)) P).
      + intros D. inversion D as [| | | | | | |? k ? P| | |]; subst. inversion P; subst. constructor; [now apply IHa|].
        apply den_star. exists k. apply (pow_ext _ _ _ _ (fun u0 => proj2 (IHa u0))). assumption.
    - split.
      + intros D. inversion D; subst; [apply pd_opt1; now apply IHa|match goal with X : den REps _ |- _ => inversion X; subst end; apply pd_opt0].
      + intros D. inversion D; subst; [apply d_altr; constructor|apply d_altl; now apply IHa].
    - split.
      + intros D. inversion D as [| |? ? u v Du Dv| | | |]; subst. apply den_rep in Du. apply den_opt_rep in Dv. destruct Dv as [j [Hj Pj]].
        apply pd_rep with (m + j); [lia|lia|]. apply pow_app; apply (pow_ext _ _ _ _ (fun u0 => proj1 (IHa u0))); assumption.
      + intros D. inversion D as [| | | | | | | | | |? ? ? k ? Hm Hk P]; subst.
        assert (Sp : forall j k0 w0, pow (pyden a) (j + k0) w0 -> exists u v, w0 = u ++ v /\ pow (pyden a) j u /\ pow (pyden a) k0 v).
        { induction j as [|j IHj]; intros k0 w0 P0; [exists [], w0; split; [reflexivity|split; [constructor|exact P0]]|].
          cbn [Nat.add] in P0. inversion P0; subst. destruct (IHj _ _ H1) as [u1 [v1 [-> [P1 P2]]]]. exists (u ++ u1), v1. split; [now rewrite app_assoc|split; [now constructor|exact P2]]. }
        replace k with (m + (k - m)) in P by lia. destruct (Sp _ _ _ P) as [u [v [-> [P1 P2]]]].
        constructor.
        * apply den_rep. apply (pow_ext _ _ _ _ (fun u0 => proj2 (IHa u0)) P1).
        * apply den_opt_rep. exists (k - m). split; [lia|]. apply (pow_ext _ _ _ _ (fun u0 => proj2 (IHa u0)) P2).
  Qed.
End S.
