(* str.join is a left inverse of str.split: whatever from_networkx reads from a label, the label was exactly the assembly of
   what it read. *)
From Coq Require Import List Bool NArith Arith Lia.
From PFL Require Import Model.GraphLabels Proofs.GraphLabels.
Import ListNotations.

Fixpoint join (sep : str) (parts : list str) : str :=
  match parts with
  | [] => []
  | [x] => x
  | x :: rest => x ++ sep ++ join sep rest
  end.

Lemma prefixb_true : forall p s, prefixb p s = true -> exists r, s = p ++ r.
Proof.
  induction p as [|a p IH]; intros s H; [exists s; reflexivity|].
  destruct s as [|b s]; cbn in H; [discriminate|].
  destruct (N.eqb_spec a b) as [->|]; [|discriminate].
  destruct (IH s H) as [r ->]. exists r. reflexivity.
Qed.

Lemma split_aux_nonempty : forall sep s k cur, split_aux sep k cur s <> [].
Proof.
  intros sep s; induction s as [|c s IH]; intros k cur; cbn [split_aux]; [discriminate|].
  destruct k; [|apply IH]. destruct (prefixb sep (c :: s)); [discriminate|apply IH].
Qed.

Lemma join_cons : forall sep x rest, rest <> [] -> join sep (x :: rest) = x ++ sep ++ join sep rest.
Proof. intros sep x [|y rest] H; [congruence|reflexivity]. Qed.

Lemma join_split_aux : forall sep n s cur, sep <> [] -> length s <= n -> join sep (split_aux sep 0 cur s) = rev cur ++ s.
Proof.
  intros sep n; induction n as [|n IH]; intros s cur Hne L.
  - destruct s; [|cbn in L; lia]. cbn. now rewrite app_nil_r.
  - destruct s as [|c s]; [cbn; now rewrite app_nil_r|]. cbn [split_aux].
    destruct (prefixb sep (c :: s)) eqn:E.
    + destruct (prefixb_true _ _ E) as [r Hr]. destruct sep as [|d sep'].
      * congruence.
      * cbn [app] in Hr. injection Hr as <- ->. cbn [length]. rewrite Nat.sub_succ, Nat.sub_0_r, split_skip.
        rewrite join_cons by apply split_aux_nonempty. cbn in L. rewrite app_length in L.
        rewrite IH by (auto; lia). reflexivity.
    + cbn in L. rewrite IH by (auto; lia). cbn [rev]. now rewrite <- app_assoc.
Qed.

Theorem join_split : forall sep s, sep <> [] -> join sep (split sep s) = s.
Proof. intros sep s H. unfold split. now rewrite (join_split_aux sep (length s)). Qed.

Theorem read_pda_label_sound : forall l a b c, read_pda_label l = Some (a, b, c) -> l = pda_label a b c.
Proof.
  intros l a b c H. unfold read_pda_label, split2 in H.
  pose proof (join_split sep_arrow l ltac:(discriminate)) as J1.
  destruct (split sep_arrow l) as [|x [|y [|z t]]]; try discriminate.
  pose proof (join_split sep_slash y ltac:(discriminate)) as J2.
  destruct (split sep_slash y) as [|u [|v [|w t]]]; try discriminate.
  injection H as <- <- <-. unfold pda_label. rewrite <- J1. cbn [join]. now rewrite <- J2.
Qed.

Theorem read_fst_label_sound : forall l a b, read_fst_label l = Some (a, b) -> l = fst_label a b.
Proof.
  intros l a b H. unfold read_fst_label, split2 in H.
  pose proof (join_split sep_arrow l ltac:(discriminate)) as J1.
  destruct (split sep_arrow l) as [|x [|y [|z t]]]; try discriminate.
  injection H as <- <-. unfold fst_label. now rewrite <- J1.
Qed.
