From Coq Require Import List Bool Arith NArith Lia.
From PFL Require Import Spec.Regex.
From PFL Require Import Model.RegexParse.
Import ListNotations.

Fixpoint no_empty (r : re) : Prop :=
  match r with
  | REmpty => False
  | REps | RSym _ => True
  | RCat a b | RAlt a b => no_empty a /\ no_empty b
  | RStar a => no_empty a
  end.
Fixpoint size (r : re) : nat :=
  match r with
  | REmpty | REps | RSym _ => 1
  | RCat a b => size a + size b        (* a concatenation by juxtaposition adds no token *)
  | RAlt a b => S (size a + size b)
  | RStar a => S (size a)
  end.
Definition binop (r : re) : bool := match r with RCat _ _ | RAlt _ _ => true | _ => false end.
Definition is_alt (r : re) : bool := match r with RAlt _ _ => true | _ => false end.

Lemma size_pos r : 1 <= size r.
Proof. induction r; simpl; lia. Qed.

Definition stop1 (rest : list tok) : Prop := match rest with [] | TRp :: _ | TUnion :: _ => True | _ => False end.
Definition stop0 (rest : list tok) : Prop := match rest with [] | TRp :: _ => True | _ => False end.

Lemma stop1_stars r rest : stop1 rest -> stars r rest = (r, rest).
Proof. destruct rest as [|[] rest]; simpl; tauto. Qed.

Definition atom_start (t : tok) : Prop := match t with TSym _ | TEps | TLp => True | _ => False end.
Lemma pr_head d lvl r rest : no_empty r -> exists t ts, pr d lvl r ++ rest = t :: ts /\ atom_start t.
Proof.
  revert lvl rest. induction r as [| |a|a IHa b IHb|a IHa b IHb|a IHa]; intros lvl rest Hn.
  - destruct Hn.
  - exists TEps, rest. split; [reflexivity|exact I].
  - exists (TSym a), rest. split; [reflexivity|exact I].
  - destruct Hn as (Ha & Hb). simpl. destruct (Nat.leb lvl 1).
    + rewrite <- app_assoc. apply IHa; exact Ha.
    + eexists TLp, _. split; [reflexivity|exact I].
  - destruct Hn as (Ha & Hb). simpl. destruct (Nat.eqb lvl 0).
    + rewrite <- app_assoc. apply IHa; exact Ha.
    + eexists TLp, _. split; [reflexivity|exact I].
  - simpl. rewrite <- app_assoc. apply IHa; exact Hn.
Qed.

Section Rec.
  Variable rec : list tok -> option (re * list tok).
  Variable m : nat.
  Variable d : bool.
  Hypothesis Hrec : forall r', size r' <= m -> no_empty r' -> forall rest, rec (pr d 0 r' ++ TRp :: rest) = Some (r', TRp :: rest).

  Lemma paren_atom r rest : size r <= m -> no_empty r ->
    parse_atom rec (TLp :: pr d 0 r ++ TRp :: rest) = Some (r, rest).
  Proof. intros Hs Hn. simpl. now rewrite (Hrec r Hs Hn rest). Qed.

  Lemma L2 r : no_empty r -> size r <= S m -> (binop r = true -> size r <= m) ->
    forall rest, parse_star rec (pr d 2 r ++ rest) = Some (stars r rest).
  Proof.
    induction r as [| |a|a IHa b IHb|a IHa b IHb|a IHa]; intros Hn Hs Hb rest.
    - destruct Hn.
    - reflexivity.
    - reflexivity.
    - assert (E : pr d 2 (RCat a b) ++ rest = TLp :: pr d 0 (RCat a b) ++ TRp :: rest).
      { simpl. now rewrite <- app_assoc. }
      rewrite E. unfold parse_star. rewrite paren_atom; auto.
    - assert (E : pr d 2 (RAlt a b) ++ rest = TLp :: pr d 0 (RAlt a b) ++ TRp :: rest).
      { simpl. now rewrite <- app_assoc. }
      rewrite E. unfold parse_star. rewrite paren_atom; auto.
    - simpl in Hs. simpl pr. rewrite <- app_assoc. simpl app.
      rewrite IHa; [reflexivity|exact Hn|lia|intros _; lia].
  Qed.

  Lemma L1 r : no_empty r -> size r <= S m -> (is_alt r = true -> size r <= m) ->
    forall g, size r <= g -> forall rest, stop1 rest -> parse_concat rec g (pr d 1 r ++ rest) = Some (r, rest).
  Proof.
    induction r as [| |a|a IHa b IHb|a IHa b IHb|a IHa]; intros Hn Hs Ha g Hg rest Hstop.
    - destruct Hn.
    - destruct g as [|g]; [simpl in Hg; lia|]. change (pr d 1 REps) with (pr d 2 REps). cbn [parse_concat].
      rewrite L2 by (first [exact Hn|exact Hs|discriminate]). rewrite stop1_stars by exact Hstop.
      destruct rest as [|[] rest]; simpl in Hstop; try contradiction; reflexivity.
    - destruct g as [|g]; [simpl in Hg; lia|]. change (pr d 1 (RSym a)) with (pr d 2 (RSym a)). cbn [parse_concat].
      rewrite L2 by (first [exact Hn|exact Hs|discriminate]). rewrite stop1_stars by exact Hstop.
      destruct rest as [|[] rest]; simpl in Hstop; try contradiction; reflexivity.
    - pose proof (size_pos a) as Pa. pose proof (size_pos b) as Pb.
      destruct g as [|g]; [simpl in Hg; lia|]. simpl in Hs, Hg. destruct Hn as (Hna & Hnb).
      assert (E : pr d 1 (RCat a b) ++ rest = pr d 2 a ++ (if d then TConcat :: pr d 1 b ++ rest else pr d 1 b ++ rest)).
      { simpl. rewrite <- !app_assoc. destruct d; reflexivity. }
      rewrite E. cbn [parse_concat]. rewrite L2; [|exact Hna|lia|intros _; lia].
      assert (IH : parse_concat rec g (pr d 1 b ++ rest) = Some (b, rest)).
      { apply IHb; [exact Hnb|lia|intros _; lia|lia|exact Hstop]. }
      destruct d.
      + change (stars a (TConcat :: pr true 1 b ++ rest)) with (a, TConcat :: pr true 1 b ++ rest). cbn beta iota.
        now rewrite IH.
      + destruct (pr_head false 1 b rest Hnb) as (t & ts & Et & Ht). rewrite Et in *.
        destruct t; simpl in Ht; try contradiction; simpl; now rewrite IH.
    - destruct g as [|g]; [simpl in Hg; lia|]. change (pr d 1 (RAlt a b)) with (pr d 2 (RAlt a b)). cbn [parse_concat].
      rewrite L2 by (first [exact Hn|exact Hs|intros _; apply Ha; reflexivity]). rewrite stop1_stars by exact Hstop.
      destruct rest as [|[] rest]; simpl in Hstop; try contradiction; reflexivity.
    - destruct g as [|g]; [simpl in Hg; lia|]. change (pr d 1 (RStar a)) with (pr d 2 (RStar a)). cbn [parse_concat].
      rewrite L2 by (first [exact Hn|exact Hs|discriminate]). rewrite stop1_stars by exact Hstop.
      destruct rest as [|[] rest]; simpl in Hstop; try contradiction; reflexivity.
  Qed.

  Lemma stop0_stop1 rest : stop0 rest -> stop1 rest.
  Proof. destruct rest as [|[] rest]; simpl; tauto. Qed.

  Lemma L0 r : no_empty r -> size r <= S m ->
    forall f g, size r <= f -> size r <= g -> forall rest, stop0 rest -> parse_alt rec f g (pr d 0 r ++ rest) = Some (r, rest).
  Proof.
    induction r as [| |a|a IHa b IHb|a IHa b IHb|a IHa]; intros Hn Hs f g Hf Hg rest Hstop.
    - destruct Hn.
    - destruct g as [|g]; [simpl in Hg; lia|]. change (pr d 0 REps) with (pr d 1 REps). cbn [parse_alt].
      rewrite L1 by (first [exact Hn|exact Hs|exact Hf|discriminate|apply stop0_stop1; exact Hstop]).
      destruct rest as [|[] rest]; simpl in Hstop; try contradiction; reflexivity.
    - destruct g as [|g]; [simpl in Hg; lia|]. change (pr d 0 (RSym a)) with (pr d 1 (RSym a)). cbn [parse_alt].
      rewrite L1 by (first [exact Hn|exact Hs|exact Hf|discriminate|apply stop0_stop1; exact Hstop]).
      destruct rest as [|[] rest]; simpl in Hstop; try contradiction; reflexivity.
    - pose proof (size_pos (RCat a b)) as Pc. destruct g as [|g]; [lia|]. change (pr d 0 (RCat a b)) with (pr d 1 (RCat a b)). cbn [parse_alt].
      rewrite L1 by (first [exact Hn|exact Hs|exact Hf|discriminate|apply stop0_stop1; exact Hstop]).
      destruct rest as [|[] rest]; simpl in Hstop; try contradiction; reflexivity.
    - destruct g as [|g]; [simpl in Hg; lia|]. simpl in Hs, Hf, Hg. destruct Hn as (Hna & Hnb).
      assert (E : pr d 0 (RAlt a b) ++ rest = pr d 1 a ++ TUnion :: pr d 0 b ++ rest).
      { simpl. now rewrite <- app_assoc. }
      rewrite E. cbn [parse_alt]. rewrite L1; [|exact Hna|lia|intros _; lia|lia|exact I].
      rewrite IHb; [reflexivity|exact Hnb|lia|lia|lia|exact Hstop].
    - destruct g as [|g]; [simpl in Hg; lia|]. change (pr d 0 (RStar a)) with (pr d 1 (RStar a)). cbn [parse_alt].
      rewrite L1 by (first [exact Hn|exact Hs|exact Hf|discriminate|apply stop0_stop1; exact Hstop]).
      destruct rest as [|[] rest]; simpl in Hstop; try contradiction; reflexivity.
  Qed.
End Rec.

Theorem parse_union_pr d : forall f r, no_empty r -> size r <= f ->
  forall rest, stop0 rest -> parse_union (S f) (pr d 0 r ++ rest) = Some (r, rest).
Proof.
  induction f as [|f IH]; intros r Hn Hs rest Hstop.
  - pose proof (size_pos r). lia.
  - change (parse_union (S (S f)) (pr d 0 r ++ rest)) with (parse_alt (parse_union (S f)) (S f) (S f) (pr d 0 r ++ rest)).
    apply (L0 (parse_union (S f)) f d); auto.
    intros r' Hs' Hn' rest'. apply IH; auto. exact I.
Qed.

Lemma pr_length d lvl r : no_empty r -> size r <= length (pr d lvl r).
Proof.
  revert lvl. induction r as [| |a|a IHa b IHb|a IHa b IHb|a IHa]; intros lvl Hn; simpl in *.
  - destruct Hn.
  - lia.
  - lia.
  - destruct Hn as (Ha & Hb). specialize (IHa 2 Ha). specialize (IHb 1 Hb).
    destruct (Nat.leb lvl 1); simpl; rewrite ?app_length; simpl; rewrite ?app_length; simpl; rewrite ?app_length; lia.
  - destruct Hn as (Ha & Hb). specialize (IHa 1 Ha). specialize (IHb 0 Hb).
    destruct (Nat.eqb lvl 0); simpl; rewrite ?app_length; simpl; rewrite ?app_length; simpl; lia.
  - specialize (IHa 2 Hn). rewrite app_length. simpl. lia.
Qed.

(* the reference parser reads back every expression from its minimally parenthesised text: it implements the documented
   precedences (star > concatenation > union) and groups both binary operators to the right *)
Theorem parse_print d r : no_empty r -> parse_regex (pr d 0 r) = Some r.
Proof.
  intros Hn. pose proof (pr_length d 0 r Hn) as Hl. pose proof (size_pos r) as Hp.
  pose proof (parse_union_pr d (length (pr d 0 r)) r Hn Hl [] I) as H0. rewrite app_nil_r in H0.
  unfold parse_regex. destruct (pr d 0 r) as [|t ts]; [simpl in Hl; lia|]. now rewrite H0.
Qed.
