From Coq Require Import List NArith Lia.
From PFL Require Import Base.ListSet Spec.Enfa Spec.Regex.
From PFL Require Import Model.Thompson.
Import ListNotations.

Definition lw (l : option N) : list N := match l with Some a => [a] | None => [] end.

Inductive path (E : list tedge) : nat -> list N -> nat -> Prop :=
| p_nil x : path E x [] x
| p_step x l y w z : In (x, l, y) E -> path E y w z -> path E x (lw l ++ w) z.

Lemma path_incl E E' x w y : incl E E' -> path E x w y -> path E' x w y.
Proof. intros Hi. induction 1 as [x|x l y w z Hin Hp IH]; [apply p_nil|]. eapply p_step; eauto. Qed.
Lemma path_trans E x u y v z : path E x u y -> path E y v z -> path E x (u ++ v) z.
Proof.
  induction 1 as [x|x l y0 w z0 Hin Hp IH]; intros Hq; [exact Hq|]. rewrite <- app_assoc. eapply p_step; eauto.
Qed.
Lemma path_edge E x l y : In (x, l, y) E -> path E x (lw l) y.
Proof. intros Hin. rewrite <- (app_nil_r (lw l)). eapply p_step; eauto. apply p_nil. Qed.
Lemma path_eps E x y w z : In (x, None, y) E -> path E y w z -> path E x w z.
Proof. intros Hin Hp. change w with (lw None ++ w). eapply p_step; eauto. Qed.
Lemma path_no_out E x w y : (forall l z, ~ In (x, l, z) E) -> path E x w y -> w = [] /\ y = x.
Proof. intros Hno Hp. inversion Hp as [|? l z ? ? Hin _]; subst; [auto|]. exfalso. eapply Hno; eauto. Qed.

Lemma confine E (S : nat -> Prop) m e1 z :
  (forall x l y, In (x, l, y) E -> S x -> In (x, l, y) e1 /\ (S y \/ y = m)) -> ~ S z ->
  forall x w, path E x w z -> S x -> exists u v, w = u ++ v /\ path e1 x u m /\ path E m v z.
Proof.
  intros HS Hz x w Hp. induction Hp as [x|x l y w z Hin Hp IH]; intros Hx; [contradiction|].
  destruct (HS _ _ _ Hin Hx) as (Hin1 & [Hy|Hy]).
  - destruct (IH Hz Hy) as (u & v & -> & P1 & P2). exists (lw l ++ u), v. split; [now rewrite app_assoc|].
    split; [eapply p_step; eauto|exact P2].
  - subst y. exists (lw l), w. split; [reflexivity|]. split; [apply path_edge; exact Hin1|exact Hp].
Qed.

Definition ranged (E : list tedge) (p q c c' : nat) : Prop :=
  forall x l y, In (x, l, y) E -> (x = p \/ c <= x < c') /\ (y = q \/ c <= y < c').

Ltac inv_in H :=
  repeat (first [apply in_app_or in H; destruct H as [H|H] | destruct H as [H|H]; [inversion H; subst; clear H|]]); try contradiction.

Theorem th_spec r : forall p q c E c', th r p q c = (E, c') -> p < c -> q < c -> p <> q ->
  c <= c' /\ ranged E p q c c' /\ (forall w, path E p w q <-> den r w).
Proof.
  induction r as [| |a|r1 IH1 r2 IH2|r1 IH1 r2 IH2|r1 IH1]; intros p q c E c' Eth Hp Hq Hpq; simpl in Eth.
  - inversion Eth; subst. split; [lia|]. split; [intros x l y []|]. intros w. split; intros Hd; [|inversion Hd].
    inversion Hd as [|? ? ? ? ? Hin _]; subst; [contradiction|destruct Hin].
  - inversion Eth; subst. split; [lia|]. split; [intros x l y [Hin|[]]; inversion Hin; subst; auto|].
    intros w. split; intros Hd.
    + inversion Hd as [|? l y w' ? Hin Hp']; subst; [contradiction|]. destruct Hin as [Hin|[]]. inversion Hin; subst.
      apply path_no_out in Hp'; [|intros l z [Hin'|[]]; inversion Hin'; subst; contradiction]. destruct Hp' as (-> & _). apply d_eps.
    + inversion Hd; subst. apply (path_edge _ p None q). now left.
  - inversion Eth; subst. split; [lia|]. split; [intros x l y [Hin|[]]; inversion Hin; subst; auto|].
    intros w. split; intros Hd.
    + inversion Hd as [|? l y w' ? Hin Hp']; subst; [contradiction|]. destruct Hin as [Hin|[]]. inversion Hin; subst.
      apply path_no_out in Hp'; [|intros l z [Hin'|[]]; inversion Hin'; subst; contradiction]. destruct Hp' as (-> & _). apply d_sym.
    + inversion Hd; subst. apply (path_edge _ p (Some a) q). now left.
  - (* concatenation *)
    destruct (th r1 p c (S (S c))) as [e1 c1] eqn:E1. destruct (th r2 (S c) q c1) as [e2 c2] eqn:E2.
    inversion Eth; subst E c'. clear Eth.
    destruct (IH1 _ _ _ _ _ E1) as (K1 & R1 & L1); try lia.
    destruct (IH2 _ _ _ _ _ E2) as (K2 & R2 & L2); try lia.
    split; [lia|]. split.
    { intros x l y Hin. destruct Hin as [Hin|Hin]; [inversion Hin; subst; lia|]. apply in_app_or in Hin. destruct Hin as [Hin|Hin].
      - destruct (R1 _ _ _ Hin). lia.
      - destruct (R2 _ _ _ Hin). lia. }
    set (E := (c, None, S c) :: e1 ++ e2).
    assert (I1 : incl e1 E) by (intros x Hx; right; apply in_or_app; now left).
    assert (I2 : incl e2 E) by (intros x Hx; right; apply in_or_app; now right).
    intros w. split; intros Hd.
    + destruct (confine E (fun x => x = p \/ S (S c) <= x < c1) c e1 q) with (x := p) (w := w) as (u & v & -> & P1 & P2); auto; try lia.
      { intros x l y Hin HS. destruct Hin as [Hin|Hin]; [inversion Hin; subst; lia|]. apply in_app_or in Hin. destruct Hin as [Hin|Hin].
        - split; [exact Hin|]. destruct (R1 _ _ _ Hin). lia.
        - destruct (R2 _ _ _ Hin). lia. }
      apply L1 in P1. inversion P2 as [|? l y v' ? Hin P3]; subst; [lia|].
      assert (Hy : l = None /\ y = S c).
      { destruct Hin as [Hin|Hin]; [inversion Hin; auto|]. apply in_app_or in Hin. destruct Hin as [Hin|Hin].
        - destruct (R1 _ _ _ Hin). lia.
        - destruct (R2 _ _ _ Hin). lia. }
      destruct Hy as (-> & ->). simpl.
      destruct (confine E (fun x => x = S c \/ c1 <= x < c2) q e2 q) with (x := S c) (w := v') as (u2 & v2 & -> & P4 & P5); auto; try lia.
      { intros x l y Hin2 HS. destruct Hin2 as [Hin2|Hin2]; [inversion Hin2; subst; lia|]. apply in_app_or in Hin2. destruct Hin2 as [Hin2|Hin2].
        - destruct (R1 _ _ _ Hin2). lia.
        - split; [exact Hin2|]. destruct (R2 _ _ _ Hin2). lia. }
      apply L2 in P4. apply path_no_out in P5.
      * destruct P5 as (-> & _). rewrite app_nil_r. now apply d_cat.
      * intros l z Hin3. destruct Hin3 as [Hin3|Hin3]; [inversion Hin3; subst; lia|]. apply in_app_or in Hin3. destruct Hin3 as [Hin3|Hin3].
        -- destruct (R1 _ _ _ Hin3). lia.
        -- destruct (R2 _ _ _ Hin3). lia.
    + inversion Hd as [| |? ? u v D1 D2| | | |]; subst. apply L1 in D1. apply L2 in D2.
      eapply path_trans; [eapply path_incl; [exact I1|exact D1]|].
      eapply path_eps; [left; reflexivity|]. eapply path_incl; [exact I2|exact D2].
  - (* union *)
    destruct (th r1 c (S c) (S (S c))) as [e1 c1] eqn:E1. destruct (th r2 c1 (S c1) (S (S c1))) as [e2 c2] eqn:E2.
    inversion Eth; subst E c'. clear Eth.
    destruct (IH1 _ _ _ _ _ E1) as (K1 & R1 & L1); try lia.
    destruct (IH2 _ _ _ _ _ E2) as (K2 & R2 & L2); try lia.
    set (E := (p, None, c) :: (S c, None, q) :: e1 ++ (p, None, c1) :: (S c1, None, q) :: e2).
    assert (Hcases : forall x l y, In (x, l, y) E ->
              (x = p /\ l = None /\ y = c) \/ (x = S c /\ l = None /\ y = q) \/ In (x, l, y) e1 \/
              (x = p /\ l = None /\ y = c1) \/ (x = S c1 /\ l = None /\ y = q) \/ In (x, l, y) e2).
    { intros x l y Hin. destruct Hin as [Hin|[Hin|Hin]]; [inversion Hin; intuition|inversion Hin; intuition|].
      apply in_app_or in Hin. destruct Hin as [Hin|[Hin|[Hin|Hin]]]; [intuition|inversion Hin; intuition|inversion Hin; intuition|intuition]. }
    assert (I1 : incl e1 E) by (intros x Hx; right; right; apply in_or_app; now left).
    assert (I2 : incl e2 E) by (intros x Hx; right; right; apply in_or_app; right; right; now right).
    split; [lia|]. split.
    { intros x l y Hin. destruct (Hcases _ _ _ Hin) as [H|[H|[H|[H|[H|H]]]]]; try lia.
      - destruct (R1 _ _ _ H). lia.
      - destruct (R2 _ _ _ H). lia. }
    assert (Hq_out : forall l z, ~ In (q, l, z) E).
    { intros l z Hin. destruct (Hcases _ _ _ Hin) as [H|[H|[H|[H|[H|H]]]]]; try lia.
      - destruct (R1 _ _ _ H). lia.
      - destruct (R2 _ _ _ H). lia. }
    intros w. split; intros Hd.
    + inversion Hd as [|? l y w' ? Hin P1]; subst; [contradiction|].
      destruct (Hcases _ _ _ Hin) as [H|[H|[H|[H|[H|H]]]]]; try lia.
      * destruct H as (_ & -> & ->). simpl.
        destruct (confine E (fun x => x = c \/ S (S c) <= x < c1) (S c) e1 q) with (x := c) (w := w') as (u & v & -> & P2 & P3); auto; try lia.
        { intros x l y Hin' HS. destruct (Hcases _ _ _ Hin') as [H|[H|[H|[H|[H|H]]]]]; try lia.
          - split; [exact H|]. destruct (R1 _ _ _ H). lia.
          - destruct (R2 _ _ _ H). lia. }
        apply L1 in P2. inversion P3 as [|? l y v' ? Hin' P4]; subst; [lia|].
        destruct (Hcases _ _ _ Hin') as [H|[H|[H|[H|[H|H]]]]]; try lia.
        -- destruct H as (_ & -> & ->). apply path_no_out in P4; [|exact Hq_out]. destruct P4 as (-> & _).
           simpl. rewrite app_nil_r. now apply d_altl.
        -- destruct (R1 _ _ _ H). lia.
        -- destruct (R2 _ _ _ H). lia.
      * destruct (R1 _ _ _ H). lia.
      * destruct H as (_ & -> & ->). simpl.
        destruct (confine E (fun x => x = c1 \/ S (S c1) <= x < c2) (S c1) e2 q) with (x := c1) (w := w') as (u & v & -> & P2 & P3); auto; try lia.
        { intros x l y Hin' HS. destruct (Hcases _ _ _ Hin') as [H|[H|[H|[H|[H|H]]]]]; try lia.
          - destruct (R1 _ _ _ H). lia.
          - split; [exact H|]. destruct (R2 _ _ _ H). lia. }
        apply L2 in P2. inversion P3 as [|? l y v' ? Hin' P4]; subst; [lia|].
        destruct (Hcases _ _ _ Hin') as [H|[H|[H|[H|[H|H]]]]]; try lia.
        -- destruct (R1 _ _ _ H). lia.
        -- destruct H as (_ & -> & ->). apply path_no_out in P4; [|exact Hq_out]. destruct P4 as (-> & _).
           simpl. rewrite app_nil_r. now apply d_altr.
        -- destruct (R2 _ _ _ H). lia.
      * destruct (R2 _ _ _ H). lia.
    + inversion Hd as [| | |? ? ? Dl|? ? ? Dr| |]; subst.
      * apply L1 in Dl. eapply path_eps; [left; reflexivity|]. rewrite <- (app_nil_r w).
        eapply path_trans; [eapply path_incl; [exact I1|exact Dl]|]. eapply path_eps; [right; left; reflexivity|apply p_nil].
      * apply L2 in Dr. eapply path_eps; [right; right; apply in_or_app; right; left; reflexivity|]. rewrite <- (app_nil_r w).
        eapply path_trans; [eapply path_incl; [exact I2|exact Dr]|].
        eapply path_eps; [right; right; apply in_or_app; right; right; left; reflexivity|apply p_nil].
  - (* star *)
    destruct (th r1 c (S c) (S (S c))) as [e1 c1] eqn:E1.
    inversion Eth; subst E c'. clear Eth.
    destruct (IH1 _ _ _ _ _ E1) as (K1 & R1 & L1); try lia.
    set (E := (S c, None, c) :: (p, None, q) :: (p, None, c) :: (S c, None, q) :: e1).
    assert (Hcases : forall x l y, In (x, l, y) E ->
              (x = S c /\ l = None /\ y = c) \/ (x = p /\ l = None /\ y = q) \/ (x = p /\ l = None /\ y = c) \/
              (x = S c /\ l = None /\ y = q) \/ In (x, l, y) e1).
    { intros x l y Hin. destruct Hin as [Hin|[Hin|[Hin|[Hin|Hin]]]]; [inversion Hin; intuition|inversion Hin; intuition|inversion Hin; intuition|inversion Hin; intuition|intuition]. }
    assert (I1 : incl e1 E) by (intros x Hx; right; right; right; now right).
    split; [lia|]. split.
    { intros x l y Hin. destruct (Hcases _ _ _ Hin) as [H|[H|[H|[H|H]]]]; try lia. destruct (R1 _ _ _ H). lia. }
    assert (Hq_out : forall l z, ~ In (q, l, z) E).
    { intros l z Hin. destruct (Hcases _ _ _ Hin) as [H|[H|[H|[H|H]]]]; try lia. destruct (R1 _ _ _ H). lia. }
    assert (Hinner : forall x w z, path E x w z -> z = q ->
              (x = S c -> den (RStar r1) w) /\
              ((x = c \/ S (S c) <= x < c1) -> exists u v, w = u ++ v /\ path e1 x u (S c) /\ den (RStar r1) v)).
    { intros x w z Hpth. induction Hpth as [x|x l y w z Hin Hpth IH]; intros Ez; subst.
      - split; intros; lia.
      - specialize (IH eq_refl). destruct IH as (IHs & IHi). split.
        + intros Ex. subst x. destruct (Hcases _ _ _ Hin) as [H|[H|[H|[H|H]]]]; try lia.
          * destruct H as (_ & -> & ->). simpl. destruct IHi as (u & v & -> & P1 & D); [lia|].
            apply L1 in P1. apply d_star1; assumption.
          * destruct H as (_ & -> & ->). simpl. apply path_no_out in Hpth; [|exact Hq_out]. destruct Hpth as (-> & _). apply d_star0.
          * destruct (R1 _ _ _ H). lia.
        + intros Hx. destruct (Hcases _ _ _ Hin) as [H|[H|[H|[H|H]]]]; try lia.
          destruct (R1 _ _ _ H) as (_ & [Ey|Hy]).
          * subst y. exists (lw l), w. split; [reflexivity|]. split; [apply path_edge; exact H|]. apply IHs. reflexivity.
          * destruct IHi as (u & v & -> & P1 & D); [lia|]. exists (lw l ++ u), v. split; [now rewrite app_assoc|].
            split; [eapply p_step; eauto|exact D]. }
    intros w. split; intros Hd.
    + inversion Hd as [|? l y w' ? Hin P1]; subst; [contradiction|].
      destruct (Hcases _ _ _ Hin) as [H|[H|[H|[H|H]]]]; try lia.
      * destruct H as (_ & -> & ->). apply path_no_out in P1; [|exact Hq_out]. destruct P1 as (-> & _). apply d_star0.
      * destruct H as (_ & -> & ->). simpl. destruct (Hinner _ _ _ P1 eq_refl) as (_ & Hi).
        destruct Hi as (u & v & -> & P2 & D); [lia|]. apply L1 in P2. apply d_star1; assumption.
      * destruct (R1 _ _ _ H). lia.
    + assert (Hloop : forall v, den (RStar r1) v -> path E (S c) v q).
      { intros v Hv. remember (RStar r1) as R eqn:ER. induction Hv; inversion ER; subst.
        - eapply path_eps; [right; right; right; left; reflexivity|apply p_nil].
        - eapply path_eps; [left; reflexivity|]. eapply path_trans; [eapply path_incl; [exact I1|apply L1; eassumption]|]. apply IHHv2; auto. }
      inversion Hd as [| | | | |?|? u v D1 D2]; subst.
      * eapply path_eps; [right; left; reflexivity|apply p_nil].
      * eapply path_eps; [right; right; left; reflexivity|]. eapply path_trans; [eapply path_incl; [exact I1|apply L1; exact D1]|].
        apply Hloop. exact D2.
Qed.

Lemma run_path (A : enfa nat) x w y : run A x w y <-> path (e_delta A) x w y.
Proof.
  split.
  - induction 1 as [q|q q' w r Hin Hr IH|q a q' w r Hin Hr IH].
    + apply p_nil.
    + eapply path_eps; eauto.
    + change (a :: w) with (lw (Some a) ++ w). eapply p_step; eauto.
  - induction 1 as [x|x l y w z Hin Hp IH]; [apply run_nil|]. destruct l as [a|]; simpl.
    + eapply run_sym; eauto.
    + eapply run_eps; eauto.
Qed.

Theorem re_enfa_at_lang c r w : Lang (re_enfa_at c r) w <-> den r w.
Proof.
  unfold Lang, re_enfa_at. destruct (th r c (S c) (S (S c))) as [E c'] eqn:Eth. simpl.
  destruct (th_spec r c (S c) (S (S c)) E c' Eth) as (_ & _ & L); try lia.
  rewrite <- L. split.
  - intros (s & f & [<-|[]] & [<-|[]] & Hr). apply run_path in Hr. exact Hr.
  - intros Hp. exists c, (S c). split; [now left|]. split; [now left|]. apply run_path. exact Hp.
Qed.
Theorem re_enfa_lang r w : Lang (re_enfa r) w <-> den r w.
Proof. apply re_enfa_at_lang. Qed.
