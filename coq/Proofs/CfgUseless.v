(* remove_useless_symbols keeps the language and leaves only generating and reachable symbols (C09). *)
From Coq Require Import List Bool Arith NArith Lia.
From PFL Require Import Base.ListSet Base.Closure Base.Saturate Spec.Cfg Model.Cfg Proofs.CfgSymbols.
Import ListNotations.

Section Mono.
  Context {Vr : Type}.
  Lemma derives_incl (G G' : cfg Vr) : incl (g_prods G') (g_prods G) ->
    (forall X w, derives G' X w -> derives G X w) /\ (forall body w, derives_list G' body w -> derives_list G body w).
  Proof.
    intros I. apply derives_mutind.
    - intros a. apply dv_ter.
    - intros A body w Hp _ IH. apply dv_var with body; [now apply I|exact IH].
    - apply dl_nil.
    - intros X rest u v _ IHX _ IHL. now apply dl_cons.
  Qed.
  Lemma derives_list_each (G : cfg Vr) body w : derives_list G body w -> forall X, In X body -> exists u, derives G X u.
  Proof. induction 1 as [|Y rest u v DY DL IH]; intros X HX; [destruct HX|]. destruct HX as [<-|HX]; eauto. Qed.
End Mono.

Section U.
  Context {Vr : Type} `{EqDec Vr}.
  Variable G : cfg Vr.

  Lemma mkcfg_prods vars terms start prods : g_prods (mkcfg vars terms start prods : cfg Vr) = prods.
  Proof. reflexivity. Qed.
  Lemma mkcfg_start vars terms start prods : g_start (mkcfg vars terms start prods : cfg Vr) = start.
  Proof. reflexivity. Qed.

  Definition u_gen := generating_vars G.
  Definition u_prods1 := filter (fun p => mem (fst p) u_gen && forallb (symb_in_gen u_gen) (snd p)) (g_prods G).
  Definition u_G1 := mkcfg (filter (fun A => mem A u_gen) (g_vars G)) (g_terms G) (g_start G) u_prods1.
  Definition u_reach1 := reachable_symbols u_G1.
  Definition u_prods2 := filter (fun p => mem (V (fst p)) u_reach1) u_prods1.
  Definition u_G2 := remove_useless G.

  Lemma G2_prods : g_prods u_G2 = u_prods2.
  Proof. reflexivity. Qed.
  Lemma G2_start : g_start u_G2 = g_start G.
  Proof. reflexivity. Qed.

  Lemma prods1_In A body : In (A, body) u_prods1 <->
    In (A, body) (g_prods G) /\ In A u_gen /\ forall X, In X body -> match X with V B => In B u_gen | T _ => True end.
  Proof.
    unfold u_prods1. rewrite filter_In. cbn [fst snd]. rewrite andb_true_iff, mem_In, forallb_forall. split.
    - intros [Hp [HA F]]. split; [exact Hp|split; [exact HA|]]. intros X HX. specialize (F X HX). destruct X; [now apply mem_In|exact I].
    - intros [Hp [HA F]]. split; [exact Hp|split; [exact HA|]]. intros X HX. specialize (F X HX). destruct X; [now apply mem_In|reflexivity].
  Qed.

  (* step 1: restricting to generating symbols loses no derivation of a terminal word *)
  Lemma to_G1 : (forall X w, derives G X w -> derives u_G1 X w) /\ (forall body w, derives_list G body w -> derives_list u_G1 body w).
  Proof.
    apply derives_mutind.
    - intros a. apply dv_ter.
    - intros A body w Hp DL IH. apply dv_var with body; [|exact IH]. change (g_prods u_G1) with u_prods1. apply prods1_In.
      split; [exact Hp|split].
      + apply generating_vars_spec. exists w. now apply dv_var with body.
      + intros X HX. destruct X as [B|a]; [|exact I]. apply generating_vars_spec. apply (derives_list_each G body w DL _ HX).
    - apply dl_nil.
    - intros X rest u v _ IHX _ IHL. now apply dl_cons.
  Qed.

  Lemma reach1_closed X Y : In X u_reach1 -> In Y (sym_succs u_G1 X) -> In Y u_reach1.
  Proof.
    unfold u_reach1, reachable_symbols. intros HX HY.
    assert (CS : forall Z, In Z (closure (sym_succs u_G1) (all_symbols u_G1) (map V (olist (g_start u_G1)))) <->
                           reach (sym_succs u_G1) (map V (olist (g_start u_G1))) Z).
    { apply closure_spec.
      - intros Z _ Z' HZ'. apply sym_succs_In in HZ'. destruct HZ' as [A [body [-> [Hp HZ']]]].
        unfold all_symbols. apply in_or_app. right. apply in_flat_map. exists (A, body). split; [exact Hp|]. now right.
      - intros Z HZ. unfold all_symbols. apply in_or_app. now left. }
    apply CS. apply reach_step with X; [now apply CS|exact HY].
  Qed.
  Lemma reach1_start s : g_start G = Some s -> In (V s) u_reach1.
  Proof.
    intros Es. unfold u_reach1. apply (reachable_symbols_spec u_G1 s (V s)); [exact Es|]. exists [], []. apply steps_refl.
  Qed.

  (* step 2: restricting to reachable heads loses no derivation from a reachable symbol *)
  Lemma to_G2 : (forall X w, derives u_G1 X w -> In X u_reach1 -> derives u_G2 X w) /\
                (forall body w, derives_list u_G1 body w -> (forall X, In X body -> In X u_reach1) -> derives_list u_G2 body w).
  Proof.
    apply derives_mutind.
    - intros a _. apply dv_ter.
    - intros A body w Hp DL IH HA. apply dv_var with body.
      + rewrite G2_prods. unfold u_prods2. apply filter_In. split; [exact Hp|]. cbn [fst]. now apply mem_In.
      + apply IH. intros X HX. apply reach1_closed with (V A); [exact HA|]. apply sym_succs_In. eauto.
    - intros _. apply dl_nil.
    - intros X rest u v _ IHX _ IHL F. apply dl_cons; [apply IHX; apply F; now left|apply IHL; intros Y HY; apply F; now right].
  Qed.

  Lemma prods2_incl1 : incl u_prods2 u_prods1.
  Proof. intros p Hp. unfold u_prods2 in Hp. apply filter_In in Hp. tauto. Qed.
  Lemma prods1_incl : incl u_prods1 (g_prods G).
  Proof. intros p Hp. unfold u_prods1 in Hp. apply filter_In in Hp. tauto. Qed.

  Theorem remove_useless_lang w : LangG (remove_useless G) w <-> LangG G w.
  Proof.
    unfold LangG. fold u_G2. rewrite G2_start. destruct (g_start G) as [s|] eqn:Es; [|tauto]. split.
    - intros D. apply (proj1 (derives_incl G u_G2 (fun p Hp => prods1_incl p (prods2_incl1 p Hp)))). exact D.
    - intros D. apply (proj1 to_G2); [apply (proj1 to_G1); exact D|now apply reach1_start].
  Qed.

  (* shape: every symbol of every remaining production derives a terminal word in the result and is reachable in the result *)
  Lemma reach_G2 X : In X u_reach1 -> forall s, g_start G = Some s -> reach (sym_succs u_G2) [V s] X.
  Proof.
    intros HX s Es. unfold u_reach1 in HX.
    assert (R : reach (sym_succs u_G1) [V s] X).
    { unfold reachable_symbols in HX. change (g_start u_G1) with (g_start G) in HX. rewrite Es in HX. cbn [olist map] in HX.
      apply closure_spec in HX; [exact HX| |].
      - intros Z _ Z' HZ'. apply sym_succs_In in HZ'. destruct HZ' as [A [body [-> [Hp HZ']]]].
        unfold all_symbols. apply in_or_app. right. apply in_flat_map. exists (A, body). split; [exact Hp|]. now right.
      - intros Z [<-|[]]. unfold all_symbols. change (g_start u_G1) with (g_start G). rewrite Es. now left. }
    clear HX. induction R as [Y HY|Y Z RY IH HZ]; [now apply reach_init|].
    apply reach_step with Y; [exact IH|]. apply sym_succs_In in HZ. destruct HZ as [A [body [-> [Hp HZ]]]].
    apply sym_succs_In. exists A, body. split; [reflexivity|]. split; [|exact HZ]. rewrite G2_prods. unfold u_prods2.
    apply filter_In. split; [exact Hp|]. cbn [fst]. apply mem_In. unfold u_reach1, reachable_symbols.
    change (g_start u_G1) with (g_start G). rewrite Es. cbn [olist map]. apply closure_spec.
    - intros Z0 _ Z' HZ'. apply sym_succs_In in HZ'. destruct HZ' as [A0 [body0 [-> [Hp0 HZ']]]].
      unfold all_symbols. apply in_or_app. right. apply in_flat_map. exists (A0, body0). split; [exact Hp0|]. now right.
    - intros Z0 [<-|[]]. unfold all_symbols. change (g_start u_G1) with (g_start G). rewrite Es. now left.
    - exact RY.
  Qed.

  Theorem remove_useless_shape A body s : g_start G = Some s -> In (A, body) (g_prods (remove_useless G)) ->
    forall X, X = V A \/ In X body -> (exists w, derives (remove_useless G) X w) /\ reach (sym_succs (remove_useless G)) [V s] X.
  Proof.
    intros Es Hp X HX. fold u_G2 in *. rewrite G2_prods in Hp. unfold u_prods2 in Hp. apply filter_In in Hp. destruct Hp as [Hp1 HA].
    cbn [fst] in HA. apply mem_In in HA. pose proof (proj1 (prods1_In A body) Hp1) as [Hp [Hg Hb]].
    assert (RX : In X u_reach1).
    { destruct HX as [->|HX]; [exact HA|]. apply reach1_closed with (V A); [exact HA|]. apply sym_succs_In. exists A, body. auto. }
    split; [|now apply reach_G2].
    destruct X as [B|a]; [|exists [a]; apply dv_ter].
    assert (HB : In B u_gen) by (destruct HX as [E|HX]; [inversion E; subst; exact Hg|apply (Hb _ HX)]).
    apply generating_vars_spec in HB. destruct HB as [w D]. exists w. apply (proj1 to_G2); [now apply (proj1 to_G1)|exact RX].
  Qed.
End U.
