(* boolean shape checkers used on automata returned by the implementation *)
From Coq Require Import List Bool NArith.
From PFL Require Import Base.ListSet Spec.Enfa Model.Enfa Model.EnfaOps Proofs.EnfaClasses.
Import ListNotations.

Section S.
  Context {Q : Type} `{EqDec Q}.
  Definition eps_free_b (A : enfa Q) : bool :=
    forallb (fun t => match snd (fst t) with Some _ => true | None => false end) (e_delta A).
  Lemma eps_free_b_spec A : eps_free_b A = true <-> eps_free A.
  Proof.
    unfold eps_free_b, eps_free. rewrite forallb_forall. split.
    - intros F p q Hd. specialize (F _ Hd). discriminate.
    - intros E [[p [a|]] q] Hd; [reflexivity|]. destruct (E _ _ Hd).
  Qed.
  Definition dfa_b (A : enfa Q) : bool := eps_free_b A && is_deterministic A.
  Lemma dfa_b_sound A : dfa_b A = true -> is_dfa A.
  Proof.
    unfold dfa_b. rewrite andb_true_iff, eps_free_b_spec, is_deterministic_spec. intros [E [O [F _]]].
    split; [exact E|split; [|exact O]]. intros p a q q'. apply F.
  Qed.
  Definition wf_b (A : enfa Q) : bool :=
    forallb (fun t => match t with (p, l, q) => mem p (e_states A) && mem q (e_states A) &&
                        match l with Some a => mem a (e_syms A) | None => true end end) (e_delta A) &&
    subset (e_starts A) (e_states A) && subset (e_finals A) (e_states A).
  Lemma wf_b_sound A : wf_b A = true -> wf A.
  Proof.
    unfold wf_b, wf. rewrite !andb_true_iff, !subset_spec, forallb_forall. intros [[F S1] S2].
    split; [|split; [|split; assumption]].
    - intros p l q Hd. specialize (F _ Hd). cbv beta iota in F. rewrite !andb_true_iff, !mem_In in F. tauto.
    - intros p a q Hd. specialize (F _ Hd). cbv beta iota in F. rewrite !andb_true_iff, !mem_In in F. tauto.
  Qed.
End S.
