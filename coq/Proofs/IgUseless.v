From Coq Require Import List Bool NArith Lia.
From PFL Require Import Base.ListSet Base.Closure Base.Saturate Spec.Ig Model.Ig Proofs.IgMark.
From PFL Require Import Model.IgUseless.
Import ListNotations.

Section P.
  Variable R : list irule.
  Variable S : N.
  Notation R' := (ig_remove_useless R S).
  Notation nts := (nts_of R S).

  Lemma rule_nts_In r X : In r R -> In X (rule_nts r) -> In X nts.
  Proof. intros Hr HX. apply (nts_rule R S r X Hr). destruct r; exact HX. Qed.
  Lemma start_In : In S nts.
  Proof. unfold nts_of. apply canon_In. now left. Qed.

  Lemma gen_ok_mono G G' c : incl G G' -> ig_gen_ok R G c = true -> ig_gen_ok R G' c = true.
  Proof.
    intros HI. unfold ig_gen_ok. rewrite !existsb_exists. intros (r & Hr & Hb). exists r. split; [exact Hr|].
    assert (M : forall B, mem B G = true -> mem B G' = true) by (intros B HB; apply mem_In; apply HI; now apply mem_In).
    destruct r as [A a|A B f|f A B|A B C]; auto.
    - apply andb_true_iff in Hb. destruct Hb as (E1 & E2). now rewrite E1, (M _ E2).
    - apply andb_true_iff in Hb. destruct Hb as (E1 & E2). now rewrite E1, (M _ E2).
    - apply andb_true_iff in Hb. destruct Hb as (E12 & E3). apply andb_true_iff in E12. destruct E12 as (E1 & E2).
      now rewrite E1, (M _ E2), (M _ E3).
  Qed.

  Lemma gen_closed A : In A nts -> ig_gen_ok R (ig_generating R S) A = true -> In A (ig_generating R S).
  Proof. intros HA Hok. unfold ig_generating. apply saturate_closed; assumption. Qed.

  Lemma gen_of_ider A s w : ider R A s w -> In A (ig_generating R S).
  Proof.
    induction 1 as [A a s Hr|A B f s w Hr _ IH|f A B s w Hr _ IH|A B C s u v Hr _ IH1 _ IH2].
    - apply gen_closed; [apply (rule_nts_In _ _ Hr); now left|]. apply existsb_exists. exists (REnd A a). split; [exact Hr|apply N.eqb_refl].
    - apply gen_closed; [apply (rule_nts_In _ _ Hr); now left|]. apply existsb_exists. exists (RProd A B f). split; [exact Hr|].
      rewrite N.eqb_refl. simpl. now apply mem_In.
    - apply gen_closed; [apply (rule_nts_In _ _ Hr); now left|]. apply existsb_exists. exists (RCons f A B). split; [exact Hr|].
      rewrite N.eqb_refl. simpl. now apply mem_In.
    - apply gen_closed; [apply (rule_nts_In _ _ Hr); now left|]. apply existsb_exists. exists (RDup A B C). split; [exact Hr|].
      rewrite N.eqb_refl. simpl. apply andb_true_iff. split; now apply mem_In.
  Qed.

  Lemma succs_In A B : In B (ig_succs R A) <-> exists r, In r R /\
    match r with REnd _ _ => False | RProd A' B' _ => A' = A /\ B' = B | RCons _ A' B' => A' = A /\ B' = B
               | RDup A' B' C' => A' = A /\ (B' = B \/ C' = B) end.
  Proof.
    unfold ig_succs. rewrite in_flat_map. split; intros (r & Hr & H); exists r; (split; [exact Hr|]).
    - destruct r as [A' a|A' B' f|f A' B'|A' B' C']; [destruct H| | |]; destruct (N.eqb_spec A' A); try destruct H; simpl in *; intuition.
    - destruct r as [A' a|A' B' f|f A' B'|A' B' C']; [destruct H| | |]; destruct H as (-> & H); rewrite N.eqb_refl; simpl; intuition.
  Qed.

  Lemma reach_spec A : In A (ig_reachable R S) <-> reach (ig_succs R) [S] A.
  Proof.
    unfold ig_reachable. apply closure_spec.
    - intros x Hx y Hy. apply succs_In in Hy. destruct Hy as (r & Hr & H). apply (rule_nts_In r y Hr).
      destruct r as [A' a|A' B' f|f A' B'|A' B' C']; simpl in *; intuition.
    - intros x [<-|[]]. apply start_In.
  Qed.

  Lemma kept r : In r R -> (forall X, In X (rule_nts r) -> In X (ig_generating R S) /\ reach (ig_succs R) [S] X) -> In r R'.
  Proof.
    intros Hr HX. unfold ig_remove_useless. apply filter_In. split; [exact Hr|]. apply forallb_forall. intros X HXin.
    destruct (HX X HXin) as (G & Rc). apply andb_true_iff. split; apply mem_In; [exact G|now apply reach_spec].
  Qed.

  Lemma keep A s w : ider R A s w -> reach (ig_succs R) [S] A -> ider R' A s w.
  Proof.
    intros D. pose proof D as D0. revert D0.
    induction D as [A a s Hr|A B f s w Hr D IH|f A B s w Hr D IH|A B C s u v Hr D1 IH1 D2 IH2]; intros D0 Hreach.
    - apply id_end. apply kept; [exact Hr|]. intros X [<-|[]]. split; [exact (gen_of_ider _ _ _ D0)|exact Hreach].
    - assert (HB : reach (ig_succs R) [S] B).
      { eapply reach_step; [exact Hreach|]. apply succs_In. exists (RProd A B f). split; [exact Hr|]. simpl. auto. }
      eapply id_prod; [|apply IH; [exact D|exact HB]]. apply kept; [exact Hr|]. intros X [<-|[<-|[]]].
      + split; [exact (gen_of_ider _ _ _ D0)|exact Hreach].
      + split; [exact (gen_of_ider _ _ _ D)|exact HB].
    - assert (HB : reach (ig_succs R) [S] B).
      { eapply reach_step; [exact Hreach|]. apply succs_In. exists (RCons f A B). split; [exact Hr|]. simpl. auto. }
      eapply id_cons; [|apply IH; [exact D|exact HB]]. apply kept; [exact Hr|]. intros X [<-|[<-|[]]].
      + split; [exact (gen_of_ider _ _ _ D0)|exact Hreach].
      + split; [exact (gen_of_ider _ _ _ D)|exact HB].
    - assert (HB : reach (ig_succs R) [S] B).
      { eapply reach_step; [exact Hreach|]. apply succs_In. exists (RDup A B C). split; [exact Hr|]. simpl. auto. }
      assert (HC : reach (ig_succs R) [S] C).
      { eapply reach_step; [exact Hreach|]. apply succs_In. exists (RDup A B C). split; [exact Hr|]. simpl. auto. }
      eapply id_dup; [|apply IH1; [exact D1|exact HB]|apply IH2; [exact D2|exact HC]]. apply kept; [exact Hr|]. intros X [<-|[<-|[<-|[]]]].
      + split; [exact (gen_of_ider _ _ _ D0)|exact Hreach].
      + split; [exact (gen_of_ider _ _ _ D1)|exact HB].
      + split; [exact (gen_of_ider _ _ _ D2)|exact HC].
  Qed.

  Lemma ider_incl (R1 R2 : list irule) A s w : incl R1 R2 -> ider R1 A s w -> ider R2 A s w.
  Proof.
    intros HI. induction 1; [apply id_end|eapply id_prod|eapply id_cons|eapply id_dup]; eauto.
  Qed.

  Theorem remove_useless_lang w : ider R' S [] w <-> ider R S [] w.
  Proof.
    split.
    - apply ider_incl. intros r Hr. unfold ig_remove_useless in Hr. apply filter_In in Hr. tauto.
    - intros D. apply keep; [exact D|]. apply reach_init. now left.
  Qed.

  Theorem remove_useless_nonempty : ig_nonempty R' S <-> ig_nonempty R S.
  Proof.
    unfold ig_nonempty. split; intros (w & D); exists w; apply ider_small_step; apply ider_small_step in D; now apply remove_useless_lang.
  Qed.

  Theorem remove_useless_is_empty : ig_is_empty R' S = ig_is_empty R S.
  Proof.
    pose proof (ig_is_empty_spec R' S) as E1. pose proof (ig_is_empty_spec R S) as E2. pose proof remove_useless_nonempty as E.
    destruct (ig_is_empty R' S), (ig_is_empty R S); try reflexivity; exfalso.
    - assert (X : ~ ig_nonempty R' S) by now apply E1. assert (Y : ~ ~ ig_nonempty R S) by (intros Z; apply E2 in Z; discriminate).
      apply Y. intros Z. apply X. now apply E.
    - assert (X : ~ ig_nonempty R S) by now apply E2. assert (Y : ~ ~ ig_nonempty R' S) by (intros Z; apply E1 in Z; discriminate).
      apply Y. intros Z. apply X. now apply E.
  Qed.
End P.
