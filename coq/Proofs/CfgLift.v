(* terminal lifting (_get_productions_with_only_single_terminals) keeps the language of every original variable (C09). *)
From Coq Require Import List Bool Arith NArith Lia.
From PFL Require Import Base.ListSet Spec.Cfg Model.Cfg Proofs.CfgUseless.
Import ListNotations.

Section L.
  Context {Vr : Type} `{EqDec Vr}.
  Variable G : cfg Vr.
  Definition lift2 (X : symb Vr) : symb (cvar Vr) := match X with V A => V (CV A) | T a => V (CT a) end.
  Definition l_used : list N := dedup (flat_map (fun p => match snd p with [_] => [] | b => body_terms b end) (g_prods G)).
  Definition Gl : cfg (cvar Vr) := mkG [] [] (option_map CV (g_start G)) (single_terminals G).

  Lemma lift_body_cases body : lift_body body = map lift_symb body /\ (exists X, body = [X]) \/
                               lift_body body = map lift2 body /\ (forall X, body <> [X]).
  Proof.
    destruct body as [|X [|Y r]]; cbn [lift_body].
    - right. split; [reflexivity|]. intros X; discriminate.
    - left. split; [reflexivity|eauto].
    - right. split; [reflexivity|]. intros Z; discriminate.
  Qed.

  Lemma Gl_prods Y ys : In (Y, ys) (g_prods Gl) <->
    (exists A body, Y = CV A /\ ys = lift_body body /\ In (A, body) (g_prods G)) \/ (exists a, Y = CT a /\ ys = [T a] /\ In a l_used).
  Proof.
    unfold Gl, single_terminals. cbn [g_prods]. fold l_used. rewrite in_app_iff, !in_map_iff. split.
    - intros [[[A body] [E Hp]]|[a [E Ha]]]; inversion E; subst; [left|right]; eauto.
    - intros [[A [body [-> [-> Hp]]]]|[a [-> [-> Ha]]]]; [left; exists (A, body)|right; exists a]; auto.
  Qed.

  Lemma used_In A body a : In (A, body) (g_prods G) -> (forall X, body <> [X]) -> In (T a) body -> In a l_used.
  Proof.
    intros Hp Hn Ha. unfold l_used. apply dedup_In. apply in_flat_map. exists (A, body). split; [exact Hp|]. cbn [snd].
    assert (X : In a (body_terms body)) by (unfold body_terms; apply in_flat_map; exists (T a); split; [exact Ha|now left]).
    destruct body as [|X1 [|X2 r]]; [destruct Ha| |exact X]. exfalso. now apply (Hn X1).
  Qed.

  Lemma to_Gl :
    (forall X w, derives G X w -> derives Gl (lift_symb X) w) /\
    (forall body w, derives_list G body w -> derives_list Gl (map lift_symb body) w /\
                                             ((forall a, In (T a) body -> In a l_used) -> derives_list Gl (map lift2 body) w)).
  Proof.
    apply derives_mutind.
    - intros a. apply dv_ter.
    - intros A body w Hp _ [IH1 IH2]. cbn [lift_symb]. apply dv_var with (lift_body body); [apply Gl_prods; left; eauto|].
      destruct (lift_body_cases body) as [[-> _]|[-> Hn]]; [exact IH1|]. apply IH2. intros a Ha. now apply used_In with A body.
    - split; [apply dl_nil|intros _; apply dl_nil].
    - intros X rest u v DX IHX _ [IH1 IH2]. cbn [map]. split; [now apply dl_cons|]. intros F. apply dl_cons.
      + destruct X as [B|a]; cbn [lift2]; [exact IHX|]. inversion DX; subst. apply dv_var with [T a].
        * apply Gl_prods. right. exists a. repeat split. apply F. now left.
        * change [a] with ([a] ++ []). apply dl_cons; [apply dv_ter|apply dl_nil].
      + apply IH2. intros a Ha. apply F. now right.
  Qed.

  Lemma from_Gl :
    (forall Y w, derives Gl Y w -> match Y with
                                   | V (CV A) => derives G (V A) w | V (CT a) => w = [a] | V (CC _) => False | T a => w = [a] end) /\
    (forall ys w, derives_list Gl ys w -> forall body, (ys = map lift_symb body \/ ys = map lift2 body) -> derives_list G body w).
  Proof.
    apply derives_mutind.
    - reflexivity.
    - intros Y ys w Hp _ IH. apply Gl_prods in Hp. destruct Hp as [[A [body [-> [-> Hp]]]]|[a [-> [-> Ha]]]].
      + apply dv_var with body; [exact Hp|]. apply IH. destruct (lift_body_cases body) as [[-> _]|[-> _]]; auto.
      + specialize (IH [T a] (or_introl eq_refl)). inversion IH as [|X rest u v DX DL]; subst. inversion DX; subst. inversion DL; subst. reflexivity.
    - intros body [E|E]; destruct body; try discriminate; apply dl_nil.
    - intros Y rest u v _ IHY _ IHL body E. destruct body as [|X body']; [destruct E; discriminate|]. apply dl_cons.
      + destruct E as [E|E]; inversion E; subst; destruct X as [B|a]; cbn in IHY; subst; try exact IHY; apply dv_ter.
      + apply IHL. destruct E as [E|E]; inversion E; auto.
  Qed.

  Theorem lift_lang A w : derives Gl (V (CV A)) w <-> derives G (V A) w.
  Proof. split; [apply (proj1 from_Gl (V (CV A)))|apply (proj1 to_Gl (V A))]. Qed.
End L.
