(* Two reduced, trim, language-equal deterministic automata are isomorphic (C02: equivalent automata minimise to isomorphic
   results; the harness's isomorphism verdict is backed by this theorem on certified instances). *)
From Coq Require Import List Bool NArith Lia.
From PFL Require Import Base.ListSet Base.Closure Spec.Enfa Model.Enfa Model.EnfaOps Proofs.EnfaAccepts Proofs.EnfaRuns Proofs.EnfaEmpty Proofs.EnfaComplement
  Oracle.EnfaMinimal.
Import ListNotations.

Lemma run_split_gen {Q} (A : enfa Q) u : forall p v r, run A p (u ++ v) r -> exists q, run A p u q /\ run A q v r.
Proof.
  intros p v r R. remember (u ++ v) as w eqn:Ew. revert u v Ew. induction R as [q|q q' w r' Hd R IH|q a q' w r' Hd R IH]; intros u v Ew.
  - symmetry in Ew. apply app_eq_nil in Ew. destruct Ew as [-> ->]. exists q. split; apply run_nil.
  - destruct (IH u v Ew) as [m [R1 R2]]. exists m. split; [now apply run_eps with q'|exact R2].
  - destruct u as [|b u].
    + cbn [app] in Ew. subst v. exists q. split; [apply run_nil|now apply run_sym with q'].
    + cbn [app] in Ew. inversion Ew; subst. destruct (IH u v eq_refl) as [m [R1 R2]]. exists m. split; [now apply run_sym with q'|exact R2].
Qed.

(* every state can still reach a final state *)
Definition trim {Q} (B : enfa Q) : Prop := forall q, In q (e_states B) -> exists w f, In f (e_finals B) /\ run B q w f.
Definition trim_b {Q} `{EqDec Q} (B : enfa Q) : bool := forallb (fun q => negb (is_empty (reroot B q))) (e_states B).
Lemma trim_b_sound {Q} `{EqDec Q} (B : enfa Q) : trim_b B = true -> trim B.
Proof.
  unfold trim_b. rewrite forallb_forall. intros Hb q Hq. specialize (Hb q Hq). apply negb_true_iff in Hb.
  destruct (is_empty (reroot B q)) eqn:E; [discriminate|]. clear Hb.
  (* the emptiness test is a reachability computation: extract the witness from its negation *)
  unfold is_empty in E. apply negb_false_iff in E. apply existsb_exists in E. destruct E as [f [Hf Hm]]. apply mem_In in Hm.
  apply closure_spec in Hf.
  - apply reach_run in Hf. destruct Hf as [s [w [[<-|[]] R]]]. exists w, f. split; [exact Hm|]. clear - R.
    induction R; [apply run_nil|eapply run_eps; eauto|eapply run_sym; eauto].
  - intros x Hx y Hy. apply all_succs_In in Hy. destruct Hy as [l Hd]. apply in_or_app. right. unfold targets. apply in_map_iff. exists (x, l, y). auto.
  - intros x Hx. apply in_or_app. now left.
Qed.

Section Iso.
  Context {Q1 Q2 : Type} `{EqDec Q1} `{EqDec Q2}.
  Variables (B1 : enfa Q1) (B2 : enfa Q2).
  Hypothesis D1 : is_dfa B1. Hypothesis D2 : is_dfa B2.
  Hypothesis W1 : wf B1. Hypothesis W2 : wf B2.
  Hypothesis R1 : reduced B1. Hypothesis R2 : reduced B2.
  Hypothesis T1 : trim B1. Hypothesis T2 : trim B2.
  Hypothesis LE : lang_eq B1 B2.

  (* the correspondence: states reached by the same word *)
  Definition Rel (p : Q1) (q : Q2) : Prop :=
    exists w s1 s2, In s1 (e_starts B1) /\ In s2 (e_starts B2) /\ run B1 s1 w p /\ run B2 s2 w q.

  Lemma run_reroot {Q} (B : enfa Q) x p w q : run (reroot B x) p w q <-> run B p w q.
  Proof. split; induction 1; [apply run_nil|eapply run_eps; eauto|eapply run_sym; eauto|apply run_nil|eapply run_eps; eauto|eapply run_sym; eauto]. Qed.
  Lemma lang_reroot {Q} (B : enfa Q) x w : Lang (reroot B x) w <-> exists f, In f (e_finals B) /\ run B x w f.
  Proof.
    unfold Lang. cbn [reroot e_starts e_finals]. split.
    - intros [s [f [[<-|[]] [Hf R]]]]. exists f. split; [exact Hf|now apply run_reroot in R].
    - intros [f [Hf R]]. exists x, f. split; [now left|split; [exact Hf|now apply run_reroot]].
  Qed.

  Lemma states_run {Q} (B : enfa Q) : wf B -> forall p w q, run B p w q -> In p (e_states B) -> In q (e_states B).
  Proof. intros W p w q R. induction R as [x|x x' w y Hd _ IH|x a x' w y Hd _ IH]; intros Hx; [exact Hx|apply IH; apply (proj1 W _ _ _ Hd)|apply IH; apply (proj1 W _ _ _ Hd)]. Qed.

  Lemma rel_lang p q : Rel p q -> lang_eq (reroot B1 p) (reroot B2 q).
  Proof.
    intros [w [s1 [s2 [Hs1 [Hs2 [Rp Rq]]]]]] u. rewrite !lang_reroot. destruct D1 as [E1 [F1 O1]]. destruct D2 as [E2 [F2 O2]]. split.
    - intros [f [Hf Ru]]. assert (L : Lang B1 (w ++ u)) by (exists s1, f; split; [exact Hs1|split; [exact Hf|now apply run_app with p]]).
      apply LE in L. destruct L as [s2' [f2 [Hs2' [Hf2 Rw]]]]. rewrite (O2 _ _ Hs2' Hs2) in Rw.
      apply run_split_gen in Rw. destruct Rw as [m [Rm Ru2]]. rewrite (dfa_run_unique B2 E2 F2 _ _ _ Rm _ Rq) in Ru2. eauto.
    - intros [f [Hf Ru]]. assert (L : Lang B2 (w ++ u)) by (exists s2, f; split; [exact Hs2|split; [exact Hf|now apply run_app with q]]).
      apply LE in L. destruct L as [s1' [f1 [Hs1' [Hf1 Rw]]]]. rewrite (O1 _ _ Hs1' Hs1) in Rw.
      apply run_split_gen in Rw. destruct Rw as [m [Rm Ru1]]. rewrite (dfa_run_unique B1 E1 F1 _ _ _ Rm _ Rp) in Ru1. eauto.
  Qed.

  Lemma rel_total_l p : In p (e_states B1) -> exists q, In q (e_states B2) /\ Rel p q.
  Proof.
    intros Hp. destruct (proj1 R1 p Hp) as [s1 [w [Hs1 Rp]]]. destruct (T1 p Hp) as [u [f [Hf Ru]]].
    assert (L : Lang B1 (w ++ u)) by (exists s1, f; split; [exact Hs1|split; [exact Hf|now apply run_app with p]]).
    apply LE in L. destruct L as [s2 [f2 [Hs2 [Hf2 Rw]]]]. apply run_split_gen in Rw. destruct Rw as [q [Rq _]].
    exists q. split; [apply (states_run B2 W2 _ _ _ Rq); apply (proj1 (proj2 (proj2 W2))); exact Hs2|]. exists w, s1, s2. auto.
  Qed.
  Lemma rel_total_r q : In q (e_states B2) -> exists p, In p (e_states B1) /\ Rel p q.
  Proof.
    intros Hq. destruct (proj1 R2 q Hq) as [s2 [w [Hs2 Rq]]]. destruct (T2 q Hq) as [u [f [Hf Ru]]].
    assert (L : Lang B2 (w ++ u)) by (exists s2, f; split; [exact Hs2|split; [exact Hf|now apply run_app with q]]).
    apply LE in L. destruct L as [s1 [f1 [Hs1 [Hf1 Rw]]]]. apply run_split_gen in Rw. destruct Rw as [p [Rp _]].
    exists p. split; [apply (states_run B1 W1 _ _ _ Rp); apply (proj1 (proj2 (proj2 W1))); exact Hs1|]. exists w, s1, s2. auto.
  Qed.

  Lemma rel_states p q : Rel p q -> In p (e_states B1) /\ In q (e_states B2).
  Proof.
    intros [w [s1 [s2 [Hs1 [Hs2 [Rp Rq]]]]]]. split.
    - apply (states_run B1 W1 _ _ _ Rp). now apply (proj1 (proj2 (proj2 W1))).
    - apply (states_run B2 W2 _ _ _ Rq). now apply (proj1 (proj2 (proj2 W2))).
  Qed.

  Lemma rel_fun_r p q q' : Rel p q -> Rel p q' -> q = q'.
  Proof.
    intros X Y. destruct (eqb_spec q q') as [E|Ne]; [exact E|exfalso].
    apply (proj2 R2 q q' (proj2 (rel_states _ _ X)) (proj2 (rel_states _ _ Y)) Ne).
    intros u. rewrite <- (rel_lang _ _ X u). apply (rel_lang _ _ Y u).
  Qed.
  Lemma rel_fun_l p p' q : Rel p q -> Rel p' q -> p = p'.
  Proof.
    intros X Y. destruct (eqb_spec p p') as [E|Ne]; [exact E|exfalso].
    apply (proj2 R1 p p' (proj1 (rel_states _ _ X)) (proj1 (rel_states _ _ Y)) Ne).
    intros u. rewrite (rel_lang _ _ X u). symmetry. apply (rel_lang _ _ Y u).
  Qed.

  Lemma rel_final p q : Rel p q -> (In p (e_finals B1) <-> In q (e_finals B2)).
  Proof.
    intros X. pose proof (rel_lang _ _ X []) as L. rewrite !lang_reroot in L. destruct D1 as [E1 _]. destruct D2 as [E2 _]. split.
    - intros Hp. destruct (proj1 L) as [f [Hf Rf]]; [exists p; split; [exact Hp|apply run_nil]|]. now rewrite (run_nil_eps_free B2 _ _ E2 Rf).
    - intros Hq. destruct (proj2 L) as [f [Hf Rf]]; [exists q; split; [exact Hq|apply run_nil]|]. now rewrite (run_nil_eps_free B1 _ _ E1 Rf).
  Qed.

  Lemma rel_step_l p q a p' : Rel p q -> In (p, Some a, p') (e_delta B1) -> exists q', In (q, Some a, q') (e_delta B2) /\ Rel p' q'.
  Proof.
    intros [w [s1 [s2 [Hs1 [Hs2 [Rp Rq]]]]]] Hd. destruct D2 as [E2 [F2 O2]].
    assert (Hp' : In p' (e_states B1)) by (apply (proj1 W1 _ _ _ Hd)).
    destruct (T1 p' Hp') as [u [f [Hf Ru]]].
    assert (L : Lang B1 (w ++ a :: u)) by (exists s1, f; split; [exact Hs1|split; [exact Hf|apply run_app with p; [exact Rp|now apply run_sym with p']]]).
    apply LE in L. destruct L as [s2' [f2 [Hs2' [Hf2 Rw]]]]. rewrite (O2 _ _ Hs2' Hs2) in Rw.
    apply run_split_gen in Rw. destruct Rw as [m [Rm Rau]]. rewrite (dfa_run_unique B2 E2 F2 _ _ _ Rm _ Rq) in Rau.
    inversion Rau as [|? ? ? ? Hd2 _|? ? q' ? ? Hd2 Ru2]; subst; [destruct (E2 _ _ Hd2)|].
    exists q'. split; [exact Hd2|]. exists (w ++ [a]), s1, s2. split; [exact Hs1|split; [exact Hs2|split]].
    - apply run_app with p; [exact Rp|]. apply run_sym with p'; [exact Hd|apply run_nil].
    - apply run_app with q; [exact Rq|]. apply run_sym with q'; [exact Hd2|apply run_nil].
  Qed.
  Lemma rel_step_r p q a q' : Rel p q -> In (q, Some a, q') (e_delta B2) -> exists p', In (p, Some a, p') (e_delta B1) /\ Rel p' q'.
  Proof.
    intros [w [s1 [s2 [Hs1 [Hs2 [Rp Rq]]]]]] Hd. destruct D1 as [E1 [F1 O1]].
    assert (Hq' : In q' (e_states B2)) by (apply (proj1 W2 _ _ _ Hd)).
    destruct (T2 q' Hq') as [u [f [Hf Ru]]].
    assert (L : Lang B2 (w ++ a :: u)) by (exists s2, f; split; [exact Hs2|split; [exact Hf|apply run_app with q; [exact Rq|now apply run_sym with q']]]).
    apply LE in L. destruct L as [s1' [f1 [Hs1' [Hf1 Rw]]]]. rewrite (O1 _ _ Hs1' Hs1) in Rw.
    apply run_split_gen in Rw. destruct Rw as [m [Rm Rau]]. rewrite (dfa_run_unique B1 E1 F1 _ _ _ Rm _ Rp) in Rau.
    inversion Rau as [|? ? ? ? Hd1 _|? ? p' ? ? Hd1 Ru1]; subst; [destruct (E1 _ _ Hd1)|].
    exists p'. split; [exact Hd1|]. exists (w ++ [a]), s1, s2. split; [exact Hs1|split; [exact Hs2|split]].
    - apply run_app with p; [exact Rp|]. apply run_sym with p'; [exact Hd1|apply run_nil].
    - apply run_app with q; [exact Rq|]. apply run_sym with q'; [exact Hd|apply run_nil].
  Qed.

  (* [Rel] is an isomorphism *)
  Definition isomorphism (R : Q1 -> Q2 -> Prop) : Prop :=
    (forall p, In p (e_states B1) -> exists q, In q (e_states B2) /\ R p q) /\
    (forall q, In q (e_states B2) -> exists p, In p (e_states B1) /\ R p q) /\
    (forall p q q', R p q -> R p q' -> q = q') /\ (forall p p' q, R p q -> R p' q -> p = p') /\
    (forall s1 s2, In s1 (e_starts B1) -> In s2 (e_starts B2) -> R s1 s2) /\
    (forall p q, R p q -> (In p (e_finals B1) <-> In q (e_finals B2))) /\
    (forall p q a p', R p q -> In (p, Some a, p') (e_delta B1) -> exists q', In (q, Some a, q') (e_delta B2) /\ R p' q') /\
    (forall p q a q', R p q -> In (q, Some a, q') (e_delta B2) -> exists p', In (p, Some a, p') (e_delta B1) /\ R p' q').

  Theorem minimal_dfa_unique : isomorphism Rel.
  Proof.
    split; [exact rel_total_l|]. split; [exact rel_total_r|]. split; [exact rel_fun_r|]. split; [exact rel_fun_l|]. split.
    - intros s1 s2 Hs1 Hs2. exists [], s1, s2. split; [exact Hs1|split; [exact Hs2|split; apply run_nil]].
    - split; [exact rel_final|]. split; [exact rel_step_l|exact rel_step_r].
  Qed.
End Iso.
