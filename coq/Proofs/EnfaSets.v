(* set-level congruence lemmas for the ENFA model *)
From Coq Require Import List Bool NArith Lia.
From PFL Require Import Base.ListSet Base.Closure Spec.Enfa Model.Enfa Proofs.EnfaAccepts.
Import ListNotations.

Definition seteq {X} (S S' : list X) : Prop := forall x, In x S <-> In x S'.
Definition isempty {X} (S : list X) : Prop := forall x, ~ In x S.

Lemma seteq_refl {X} (S : list X) : seteq S S. Proof. intro; tauto. Qed.
Lemma seteq_sym {X} (S S' : list X) : seteq S S' -> seteq S' S. Proof. intros H x; symmetry; apply H. Qed.
Lemma seteq_trans {X} (S S' S'' : list X) : seteq S S' -> seteq S' S'' -> seteq S S''.
Proof. intros H1 H2 x; rewrite (H1 x); apply H2. Qed.
Lemma norm_seteq {X} `{Canon X} (S : list X) : seteq (norm S) S. Proof. intro x; apply norm_In. Qed.

Lemma reach_mono {X} (succ : X -> list X) S S' x : incl S S' -> reach succ S x -> reach succ S' x.
Proof. intros I R. induction R; [apply reach_init; auto|eapply reach_step; eauto]. Qed.

Section A.
  Context {Q : Type} `{EqDec Q}.
  Variable A : enfa Q.

  Lemma eclose_seteq S S' : seteq S S' -> seteq (eclose A S) (eclose A S').
  Proof.
    intros E x. rewrite !eclose_spec. unfold epath.
    split; apply reach_mono; intros y Hy; apply E; exact Hy.
  Qed.
  Lemma step_set_seteq S S' a : seteq S S' -> seteq (step_set A S a) (step_set A S' a).
  Proof.
    intros E x. rewrite !step_set_In. split; intros [q [H1 H2]]; exists q; split; auto; apply E; auto.
  Qed.
  Lemma dstep_seteq S S' a : seteq S S' -> seteq (dstep A S a) (dstep A S' a).
  Proof. intros E. unfold dstep. now apply eclose_seteq, step_set_seteq. Qed.

  Lemma is_final_set_seteq S S' : seteq S S' -> is_final_set A S = is_final_set A S'.
  Proof.
    intros E. unfold is_final_set. apply eq_true_iff_eq. rewrite !existsb_exists.
    split; intros [q [H1 H2]]; exists q; split; auto; apply E; auto.
  Qed.

  Lemma eclose_empty S : isempty S -> isempty (eclose A S).
  Proof.
    intros E x Hx. apply eclose_spec in Hx. unfold epath in Hx.
    induction Hx as [y Hy|y z Hy IH Hz]; [apply (E y Hy)|exact IH].
  Qed.
  Lemma step_set_empty S a : isempty S -> isempty (step_set A S a).
  Proof. intros E x Hx. apply step_set_In in Hx. destruct Hx as [q [Hq _]]. apply (E q Hq). Qed.
  Lemma dstep_empty S a : isempty S -> isempty (dstep A S a).
  Proof. intros E. unfold dstep. now apply eclose_empty, step_set_empty. Qed.
  Lemma is_final_set_empty S : isempty S -> is_final_set A S = false.
  Proof.
    intros E. unfold is_final_set. destruct (existsb _ S) eqn:X; [|reflexivity].
    apply existsb_exists in X. destruct X as [q [Hq _]]. destruct (E q Hq).
  Qed.
End A.
