From Coq Require Import List Bool Arith NArith Lia.
From PFL Require Import Base.Loop Base.ListSet Base.Closure Spec.Enfa Model.Enfa Model.EnfaOps Model.EnfaWords
  Proofs.EnfaAccepts Proofs.EnfaSets Proofs.EnfaRuns Proofs.EnfaEmpty Proofs.EnfaProduct.
Import ListNotations.

Section W.
  Context {Q : Type} `{EqDec Q}.
  Variable A : enfa Q.

  Lemma all_preds_In q p : In p (all_preds A q) <-> exists l, In (p, l, q) (e_delta A).
  Proof.
    unfold all_preds. rewrite in_flat_map. split.
    - intros [[[p' l] r] [Hin Hr]]. destruct (eqb_spec r q) as [->|]; [|destruct Hr].
      destruct Hr as [->|[]]. eauto.
    - intros [l Hin]. exists (p, l, q). split; [exact Hin|]. rewrite eqb_refl. now left.
  Qed.

  Lemma universe_succ x : incl (all_succs A x) (universe A).
  Proof.
    intros y Hy. apply all_succs_In in Hy. destruct Hy as [l Hd]. unfold universe.
    apply in_or_app; right. apply in_or_app; right. apply in_or_app; left.
    unfold targets. apply in_map_iff. exists (x, l, y). auto.
  Qed.
  Lemma universe_pred x : incl (all_preds A x) (universe A).
  Proof.
    intros y Hy. apply all_preds_In in Hy. destruct Hy as [l Hd]. unfold universe.
    apply in_or_app; right. apply in_or_app; right. apply in_or_app; right.
    apply in_map_iff. exists (y, l, x). auto.
  Qed.

  Definition graph_reach (S : list Q) (q : Q) : Prop := reach (all_succs A) S q.

  Lemma succ_closure S x : incl S (universe A) ->
    (In x (closure (all_succs A) (universe A) S) <-> graph_reach S x).
  Proof. intros I. apply closure_spec; [intros y _; apply universe_succ|exact I]. Qed.

  Theorem is_acyclic_spec : is_acyclic A = true <->
    forall q, graph_reach (e_starts A) q -> ~ exists r, In r (all_succs A q) /\ graph_reach [r] q.
  Proof.
    unfold is_acyclic. rewrite forallb_forall.
    assert (I0 : incl (e_starts A) (universe A)) by (intros x Hx; unfold universe; apply in_or_app; now left).
    assert (OC : forall q, on_cycle A q = true <-> exists r, In r (all_succs A q) /\ graph_reach [r] q).
    { intros q. unfold on_cycle. rewrite mem_In, (succ_closure _ _ (universe_succ q)). unfold graph_reach.
      apply reach_single. }
    split.
    - intros F q Hq C. apply (succ_closure _ _ I0) in Hq. specialize (F _ Hq). apply negb_true_iff in F.
      apply OC in C. congruence.
    - intros F q Hq. apply (succ_closure _ _ I0) in Hq. apply negb_true_iff.
      destruct (on_cycle A q) eqn:E; [|reflexivity]. apply OC in E. destruct (F _ Hq E).
  Qed.

  (* ---- states leading to a final state ---- *)
  Lemma leading_spec q : In q (leading_to_final A) <-> exists w f, In f (e_finals A) /\ run A q w f.
  Proof.
    unfold leading_to_final. rewrite closure_spec.
    - split.
      + induction 1 as [x Hx|x y Hx IH Hy].
        * exists [], x. split; [exact Hx|apply run_nil].
        * destruct IH as [w [f [Hf R]]]. apply all_preds_In in Hy. destruct Hy as [l Hd].
          exists (olist l ++ w), f. split; [exact Hf|]. eapply run_app; [apply run_edge; exact Hd|exact R].
      + intros [w [f [Hf R]]]. induction R as [q|q q' w r Hd R IH|q a q' w r Hd R IH].
        * now apply reach_init.
        * apply reach_step with q'; [now apply IH|]. apply all_preds_In. eauto.
        * apply reach_step with q'; [now apply IH|]. apply all_preds_In. eauto.
    - intros x _. apply universe_pred.
    - intros x Hx. unfold universe. apply in_or_app; right. apply in_or_app; now left.
  Qed.

  (* ---- runs that grow at the end ---- *)
  Inductive rrun (s : Q) : list N -> Q -> Prop :=
  | rr_nil : rrun s [] s
  | rr_eps w q r : rrun s w q -> In (q, None, r) (e_delta A) -> rrun s w r
  | rr_sym w q a r : rrun s w q -> In (q, Some a, r) (e_delta A) -> rrun s (w ++ [a]) r.

  Lemma rrun_cons s l s' w q : In (s, l, s') (e_delta A) -> rrun s' w q -> rrun s (olist l ++ w) q.
  Proof.
    intros Hd R. induction R as [|w q r R IH Hd'|w q a r R IH Hd'].
    - rewrite app_nil_r. destruct l as [a|]; cbn [olist].
      + apply (rr_sym s [] s a s'); [apply rr_nil|exact Hd].
      + apply rr_eps with s; [apply rr_nil|exact Hd].
    - apply rr_eps with q; auto.
    - rewrite app_assoc. apply rr_sym with q; auto.
  Qed.

  Lemma run_rrun s w q : run A s w q <-> rrun s w q.
  Proof.
    split.
    - induction 1 as [q|q q' w r Hd R IH|q a q' w r Hd R IH].
      + apply rr_nil.
      + apply (rrun_cons q None q' w r Hd IH).
      + apply (rrun_cons q (Some a) q' w r Hd IH).
    - induction 1 as [|w q r R IH Hd|w q a r R IH Hd].
      + apply run_nil.
      + rewrite <- (app_nil_r w). apply (run_snoc A s w q None r IH Hd).
      + apply (run_snoc A s w q (Some a) r IH Hd).
  Qed.

  (* ---- accepted words ---- *)
  Variable n : option nat.
  Definition within (w : list N) : Prop := match n with Some k => length w <= k | None => True end.
  Let lead := leading_to_final A.
  Let init := map (fun s => (s, @nil N)) (e_starts A).

  Lemma wreach_sound qw : reach (wsucc A n lead) init qw ->
    exists s, In s (e_starts A) /\ rrun s (snd qw) (fst qw).
  Proof.
    induction 1 as [x Hx|x y Hx IH Hy].
    - unfold init in Hx. apply in_map_iff in Hx. destruct Hx as [s [<- Hs]]. exists s. split; [exact Hs|apply rr_nil].
    - destruct IH as [s [Hs R]]. exists s. split; [exact Hs|]. unfold wsucc in Hy. apply in_flat_map in Hy.
      destruct Hy as [[[p l] r] [Hd Hy]]. destruct (eqb_spec p (fst x)) as [->|]; [|destruct Hy].
      destruct (mem r lead); cbn [andb] in Hy; [|destruct Hy]. destruct l as [a|].
      + destruct (match n with Some k => Nat.ltb (length (snd x)) k | None => true end); [|destruct Hy].
        destruct Hy as [<-|[]]. cbn [fst snd]. apply rr_sym with (fst x); auto.
      + destruct Hy as [<-|[]]. cbn [fst snd]. apply rr_eps with (fst x); auto.
  Qed.

  Lemma wreach_complete s w q : In s (e_starts A) -> rrun s w q -> within w ->
    (exists v f, In f (e_finals A) /\ run A q v f) -> reach (wsucc A n lead) init (q, w).
  Proof.
    intros Hs R. induction R as [|w q r R IH Hd|w q a r R IH Hd]; intros Hw HL.
    - apply reach_init. unfold init. apply in_map_iff. eauto.
    - assert (Hr : In r lead) by (apply leading_spec; exact HL).
      destruct HL as [v [f [Hf Rf]]].
      apply reach_step with (q, w).
      + apply IH; [exact Hw|]. exists v, f. split; [exact Hf|]. apply run_eps with r; auto.
      + unfold wsucc. apply in_flat_map. exists (q, None, r). split; [exact Hd|]. cbn [fst snd].
        rewrite eqb_refl. apply mem_In in Hr. rewrite Hr. now left.
    - assert (Hr : In r lead) by (apply leading_spec; exact HL).
      destruct HL as [v [f [Hf Rf]]].
      assert (Hw' : within w).
      { unfold within in *. destruct n; [|exact I]. rewrite app_length in Hw. cbn in Hw. lia. }
      apply reach_step with (q, w).
      + apply IH; [exact Hw'|]. exists (a :: v), f. split; [exact Hf|]. apply run_sym with r; auto.
      + unfold wsucc. apply in_flat_map. exists (q, Some a, r). split; [exact Hd|]. cbn [fst snd].
        rewrite eqb_refl. apply mem_In in Hr. rewrite Hr. cbn [andb].
        assert (X : match n with Some k => Nat.ltb (length w) k | None => true end = true).
        { unfold within in Hw. destruct n; [|reflexivity]. apply Nat.ltb_lt. rewrite app_length in Hw. cbn in Hw. lia. }
        rewrite X. now left.
  Qed.

  Lemma wreach_within qw : reach (wsucc A n lead) init qw -> within (snd qw).
  Proof.
    induction 1 as [x Hx|x y Hx IH Hy].
    - unfold init in Hx. apply in_map_iff in Hx. destruct Hx as [s [<- Hs]]. unfold within. destruct n; cbn; [lia|exact I].
    - unfold wsucc in Hy. apply in_flat_map in Hy.
      destruct Hy as [[[p l] r] [Hd Hy]]. destruct (eqb p (fst x) && mem r lead); [|destruct Hy]. destruct l as [a|].
      + unfold within in *. destruct n as [k|].
        * destruct (Nat.ltb_spec (length (snd x)) k); [|destruct Hy]. destruct Hy as [<-|[]]. cbn [snd].
          rewrite app_length. cbn. lia.
        * exact I.
      + destruct Hy as [<-|[]]. exact IH.
  Qed.

  Theorem accepted_words_spec fuel ws : accepted_words fuel A n = Some ws ->
    NoDup ws /\ forall w, In w ws <-> (Lang A w /\ within w).
  Proof.
    unfold accepted_words. fold lead. fold init.
    destruct (close_from (wsucc A n lead) fuel init) as [R|] eqn:C; [|discriminate].
    intros E. inversion E; subst ws. clear E. split; [apply dedup_NoDup|].
    pose proof (close_sound _ _ _ _ C) as RS. intros w. rewrite dedup_In, in_map_iff. split.
    - intros [[q w'] [E Hin]]. cbn [snd] in E. subst w'. apply filter_In in Hin. destruct Hin as [Hin Hf].
      cbn [fst] in Hf. apply mem_In in Hf. apply RS in Hin. split.
      + destruct (wreach_sound _ Hin) as [s [Hs Rr]]. cbn [fst snd] in Rr. exists s, q. repeat split; auto.
        now apply run_rrun.
      + apply (wreach_within _ Hin).
    - intros [[s [f [Hs [Hf Rr]]]] Hw]. exists (f, w). split; [reflexivity|]. apply filter_In. split.
      + apply RS. apply (wreach_complete s); auto; [now apply run_rrun|]. exists [], f. split; [exact Hf|apply run_nil].
      + cbn [fst]. now apply mem_In.
  Qed.
End W.
