From Coq Require Import List Bool Arith NArith ZArith Lia.
From PFL Require Import Spec.Regex Model.RegexParse Model.RegexReader Proofs.RegexParse Proofs.RegexStr Proofs.RegexReader.
Import ListNotations.

(* group and suffix of a printed expression: pr_py r = grp r ++ suf r *)
Definition grp (r : re) : list tok := match r with RStar a => TLp :: pr_py a ++ [TRp] | _ => pr_py r end.
Definition suf (r : re) : list tok := match r with RStar _ => [TStar] | _ => [] end.

Lemma pr_py_grp r : pr_py r = grp r ++ suf r.
Proof. destruct r; simpl; rewrite ?app_nil_r; try reflexivity. now rewrite <- app_assoc. Qed.

Definition symtok (t : tok) : Prop := t = TEps \/ exists a, t = TSym a.

Lemma grp_shape r : no_empty r ->
  (exists t, grp r = [t] /\ symtok t) \/ (exists x, grp r = TLp :: x ++ [TRp] /\ wb x /\ x <> []).
Proof.
  intros Hn. destruct r as [| |a|a b|a b|a]; simpl in *.
  - destruct Hn.
  - left. exists TEps. split; [reflexivity|now left].
  - left. exists (TSym a). split; [reflexivity|right; eauto].
  - right. destruct Hn as (Ha & Hb). exists (pr_py a ++ TConcat :: pr_py b). split; [now rewrite <- app_assoc|].
    split; [apply wb_join; try apply pr_py_wb; auto|]. destruct (pr_py a); discriminate.
  - right. destruct Hn as (Ha & Hb). exists (pr_py a ++ TUnion :: pr_py b). split; [now rewrite <- app_assoc|].
    split; [apply wb_join; try apply pr_py_wb; auto|]. destruct (pr_py a); discriminate.
  - right. exists (pr_py a). split; [reflexivity|]. split; [now apply pr_py_wb|].
    pose proof (pr_py_length a Hn). destruct (pr_py a); [destruct a; simpl in *; lia|discriminate].
Qed.

Lemma grp_pos r : no_empty r -> 1 <= length (grp r).
Proof. intros Hn. destruct (grp_shape r Hn) as [(t & -> & _)|(x & -> & _)]; simpl; lia. Qed.
Lemma grp_wb r : no_empty r -> wb (grp r).
Proof.
  intros Hn. destruct (grp_shape r Hn) as [(t & -> & [-> |(a & ->)])|(x & -> & Hx & _)];
    [now apply wb_single|now apply wb_single|now apply wb_paren].
Qed.
Lemma suf_dsum r : dsum (suf r) = 0%Z. Proof. destruct r; reflexivity. Qed.

Lemma efg_at pre r rest : dsum pre = 0%Z -> no_empty r ->
  end_first_group (pre ++ grp r ++ rest) (length pre) = inl (length pre + length (grp r)).
Proof.
  intros Hpre Hn. unfold end_first_group. pose proof (grp_pos r Hn) as Gp.
  assert (Hlen : (length (pre ++ grp r ++ rest) <=? length pre) = false) by (apply Nat.leb_gt; rewrite !app_length; lia).
  rewrite Hlen. rewrite app_nth2 by lia. rewrite Nat.sub_diag.
  destruct (grp_shape r Hn) as [(t & E & Ht)|(x & E & Hx & _)]; rewrite E.
  - simpl. destruct Ht as [->|(a & ->)]; simpl; f_equal; lia.
  - cbn [app nth]. change ((TLp :: x ++ [TRp]) ++ rest) with (TLp :: (x ++ [TRp]) ++ rest). rewrite <- app_assoc. cbn [app].
    rewrite (first_closing_group pre x rest Hpre Hx).
    destruct (Nat.ltb_spec 0 (length pre + S (length x))); [|lia]. f_equal. simpl. rewrite app_length. simpl. lia.
Qed.

(* a token that is neither a parenthesis: the group that starts there is the token itself *)
Lemma efg_plain l i t : nth_error l i = Some t -> t <> TLp -> t <> TRp -> end_first_group l i = inl (S i).
Proof.
  intros Hn H1 H2. unfold end_first_group. assert (Hi : i < length l) by (apply nth_error_Some; congruence).
  destruct (Nat.leb_spec (length l) i); [lia|]. rewrite (nth_error_nth l i TEps Hn). destruct t; congruence.
Qed.

Lemma efg_paren pre x rest : dsum pre = 0%Z -> wb x ->
  end_first_group (pre ++ TLp :: x ++ TRp :: rest) (length pre) = inl (length pre + S (S (length x))).
Proof.
  intros Hpre Hx. unfold end_first_group.
  assert (Hlen : (length (pre ++ TLp :: x ++ TRp :: rest) <=? length pre) = false) by (apply Nat.leb_gt; rewrite !app_length; simpl; lia).
  rewrite Hlen. rewrite app_nth2 by lia. rewrite Nat.sub_diag. cbn [nth].
  rewrite (first_closing_group pre x rest Hpre Hx).
  destruct (Nat.ltb_spec 0 (length pre + S (length x))); [|lia]. f_equal. lia.
Qed.

Lemma insert_parens_front l j : insert_parens l 0 j = TLp :: firstn j l ++ TRp :: skipn j l.
Proof. reflexivity. Qed.

Lemma node_at_ge l e d : length l <= e -> node_at l e d = d.
Proof. intros Hl. unfold node_at. destruct (Nat.ltb_spec e (length l)); [lia|reflexivity]. Qed.
Lemma node_at_lt l e d t : nth_error l e = Some t -> node_at l e d = kind_of t.
Proof.
  intros Hn. unfold node_at. assert (Hi : e < length l) by (apply nth_error_Some; congruence).
  destruct (Nat.ltb_spec e (length l)); [|lia]. now rewrite (nth_error_nth l e TEps Hn).
Qed.

(* the scan of _compute_precedence over  pre op b  started on the operator: it runs to the end and never meets a union *)
Lemma scan_b fuel pre op b : 3 <= fuel -> dsum (pre ++ [op]) = 0%Z -> kind_of op = KCat -> no_empty b ->
  exists k, k <> KUnion /\
    scan_groups fuel (pre ++ op :: pr_py b) (length pre) KCat = inl (length (pre ++ op :: pr_py b), k).
Proof.
  intros Hf Hd Hk Hn. set (L := pre ++ op :: pr_py b).
  assert (EL : L = (pre ++ [op]) ++ grp b ++ suf b) by (unfold L; rewrite pr_py_grp, <- app_assoc; reflexivity).
  pose proof (grp_pos b Hn) as Gp.
  assert (LL : length L = S (length pre) + length (grp b) + length (suf b)).
  { rewrite EL, !app_length. simpl. lia. }
  destruct fuel as [|[|[|fuel]]]; try lia.
  cbn [scan_groups]. assert (E1 : (length pre <? length L) = true) by (apply Nat.ltb_lt; lia). rewrite E1. cbn [andb].
  assert (E2 : end_first_group L (S (length pre)) = inl (S (length pre) + length (grp b))).
  { rewrite EL. pose proof (efg_at (pre ++ [op]) b (suf b) Hd Hn) as E. rewrite app_length in E. simpl in E. rewrite Nat.add_1_r in E. exact E. }
  rewrite E2.
  assert (Hsuf : suf b = [] \/ exists b1, b = RStar b1) by (destruct b; simpl; eauto).
  destruct Hsuf as [Hsuf|(b1 & Eb)].
  { rewrite Hsuf in LL. simpl in LL. rewrite node_at_ge by lia. exists KCat. split; [discriminate|].
    cbn [scan_groups]. assert (E3 : (S (length pre) + length (grp b) <? length L) = false) by (apply Nat.ltb_ge; lia).
    rewrite E3. cbn [andb]. f_equal. f_equal. lia. }
  subst b.
  (* b = RStar b1 *)
  change (suf (RStar b1)) with [TStar] in *. remember (grp (RStar b1)) as g eqn:Eg. clear Eg.
  change (length [TStar]) with 1 in LL.
  assert (Hnth : nth_error L (S (length pre) + length g) = Some TStar).
  { rewrite EL. rewrite nth_error_app2 by (rewrite app_length; change (length [op]) with 1; lia).
    rewrite app_length. change (length [op]) with 1.
    rewrite nth_error_app2 by lia. replace (S (length pre) + length g - (length pre + 1) - length g) with 0 by lia. reflexivity. }
  rewrite (node_at_lt _ _ _ _ Hnth). cbn [kind_of]. exists KStar. split; [discriminate|].
  cbn [scan_groups]. assert (E3 : (S (length pre) + length g <? length L) = true) by (apply Nat.ltb_lt; lia).
  rewrite E3. cbn [andb]. rewrite (efg_plain L _ TStar Hnth) by discriminate.
  assert (E4 : S (S (length pre) + length g) = length L) by lia.
  rewrite E4. rewrite node_at_ge by lia. cbn [scan_groups]. rewrite Nat.ltb_irrefl. reflexivity.
Qed.

(* ---- binary node: inner content I = pr_py a ++ op :: pr_py b ---- *)
Definition Fst (a : re) : list tok := match a with RStar _ => TLp :: pr_py a ++ [TRp] | _ => pr_py a end.

Lemma Fst_shape a : no_empty a ->
  (exists t, Fst a = [t] /\ symtok t) \/ (exists x, Fst a = TLp :: x ++ [TRp] /\ wb x /\ x <> []).
Proof.
  intros Hn. destruct a as [| |s|a1 a2|a1 a2|a1]; try exact (grp_shape _ Hn).
  right. exists (pr_py (RStar a1)). split; [reflexivity|]. split; [now apply pr_py_wb|]. simpl. discriminate.
Qed.
Lemma Fst_pos a : no_empty a -> 1 <= length (Fst a).
Proof. intros Hn. destruct (Fst_shape a Hn) as [(t & -> & _)|(x & -> & _)]; simpl; lia. Qed.
Lemma Fst_dsum a : no_empty a -> dsum (Fst a) = 0%Z.
Proof.
  intros Hn. destruct (Fst_shape a Hn) as [(t & -> & [-> |(s & ->)])|(x & -> & Hx & _)]; try reflexivity.
  now destruct (wb_paren x Hx).
Qed.

Section Bin.
  Variables (a b : re) (op : tok).
  Hypothesis Hna : no_empty a. Hypothesis Hnb : no_empty b.
  Hypothesis Hop : op = TConcat \/ op = TUnion.
  Let I := pr_py a ++ op :: pr_py b.
  Let P := Fst a ++ op :: pr_py b.

  Lemma op_pval' : pval op = 0%Z. Proof. destruct Hop as [E|E]; rewrite E; reflexivity. Qed.
  Lemma op_kind : kind_of op = KCat \/ kind_of op = KUnion. Proof. destruct Hop as [E|E]; rewrite E; auto. Qed.
  Lemma pb_pos' : 1 <= length (pr_py b).
  Proof. rewrite pr_py_grp, app_length. pose proof (grp_pos b Hnb). lia. Qed.

  Lemma P_first : end_first_group P 0 = inl (length (Fst a)).
  Proof.
    unfold P. destruct (Fst_shape a Hna) as [(t & E & Ht)|(x & E & Hx & _)]; rewrite E.
    - cbn [app]. rewrite (efg_plain _ 0 t); [reflexivity|reflexivity| |]; destruct Ht as [->|(s & ->)]; discriminate.
    - pose proof (efg_paren [] x (op :: pr_py b) eq_refl Hx) as F. cbn [app length] in F.
      replace ((TLp :: x ++ [TRp]) ++ op :: pr_py b) with (TLp :: x ++ TRp :: op :: pr_py b) by (cbn [app]; now rewrite <- app_assoc).
      rewrite F. f_equal. simpl. rewrite app_length. simpl. lia.
  Qed.
  Lemma P_nth : nth_error P (length (Fst a)) = Some op.
  Proof. unfold P. rewrite nth_error_app2 by lia. now rewrite Nat.sub_diag. Qed.
  Lemma P_len : length P = length (Fst a) + S (length (pr_py b)).
  Proof. unfold P. rewrite app_length. reflexivity. Qed.

  Lemma P_scan fuel : 3 <= fuel -> kind_of op = KCat -> exists k, k <> KUnion /\ scan_groups fuel P (length (Fst a)) KCat = inl (length P, k).
  Proof.
    intros Hf Hk. unfold P. apply scan_b; auto. rewrite dsum_app, Fst_dsum by exact Hna. simpl. rewrite op_pval'. reflexivity.
  Qed.

  (* one call of _compute_precedence on a list whose first group is Fst a and whose next component is the operator *)
  Lemma P_prec f : compute_precedence (S f) P = inl P.
  Proof.
    pose proof (Fst_pos a Hna). pose proof pb_pos'. pose proof P_len.
    cbn [compute_precedence]. assert (E1 : (length P <=? 1) = false) by (apply Nat.leb_gt; lia). rewrite E1.
    rewrite P_first. rewrite (node_at_lt _ _ _ _ P_nth).
    destruct op_kind as [K|K]; rewrite K; [|reflexivity].
    destruct (P_scan (S (length P)) ltac:(lia) K) as (k & Hk & Es). rewrite Es. destruct k; try reflexivity. congruence.
  Qed.

  Lemma P_strip f : strip_outer (S f) P = inl P.
  Proof.
    cbn [strip_outer]. unfold P. destruct (Fst_shape a Hna) as [(t & E & Ht)|(x & E & Hx & _)]; rewrite E.
    - cbn [app]. destruct Ht as [->|(s & ->)]; reflexivity.
    - replace ((TLp :: x ++ [TRp]) ++ op :: pr_py b) with (TLp :: x ++ TRp :: op :: pr_py b) by (cbn [app]; now rewrite <- app_assoc).
      assert (Hs : surrounded (TLp :: x ++ TRp :: op :: pr_py b) = false).
      { unfold surrounded. pose proof (first_closing_group [] x (op :: pr_py b) eq_refl Hx) as F. cbn [app length] in F. rewrite F.
        apply Nat.eqb_neq. cbn [length]. rewrite app_length. cbn [length]. pose proof pb_pos'. lia. }
      now rewrite Hs.
  Qed.
End Bin.

Lemma I_prec2 a b op f : no_empty a -> no_empty b -> op = TConcat \/ op = TUnion ->
  compute_precedence (S (S f)) (pr_py a ++ op :: pr_py b) = inl (Fst a ++ op :: pr_py b).
Proof.
  intros Hna Hnb Hop.
  destruct a as [| |s|a1 a2|a1 a2|a1]; try (exact (P_prec _ b op Hna Hnb Hop (S f))).
  (* a = RStar a1 : the star takes its operand between parentheses first *)
  pose proof (pb_pos' b Hnb) as Pb. set (ga := TLp :: pr_py a1 ++ [TRp]). set (I := pr_py (RStar a1) ++ op :: pr_py b).
  assert (EI : I = ga ++ TStar :: op :: pr_py b) by (unfold I, ga; simpl; rewrite <- !app_assoc; reflexivity).
  assert (Hg : end_first_group I 0 = inl (length ga)).
  { rewrite EI. exact (efg_at [] (RStar a1) (TStar :: op :: pr_py b) eq_refl Hna). }
  assert (Hn : nth_error I (length ga) = Some TStar) by (rewrite EI, nth_error_app2, Nat.sub_diag by lia; reflexivity).
  cbn [compute_precedence]. assert (E1 : (length I <=? 1) = false) by (apply Nat.leb_gt; rewrite EI, app_length; simpl; lia).
  rewrite E1, Hg, (node_at_lt _ _ _ _ Hn). cbn [kind_of].
  assert (EP : insert_parens I 0 (S (length ga)) = Fst (RStar a1) ++ op :: pr_py b).
  { rewrite insert_parens_front. cbn [Fst]. rewrite EI.
    replace (ga ++ TStar :: op :: pr_py b) with ((ga ++ [TStar]) ++ op :: pr_py b) by now rewrite <- app_assoc.
    replace (S (length ga)) with (length (ga ++ [TStar])) by (rewrite app_length; simpl; lia).
    rewrite firstn_app, Nat.sub_diag, firstn_all, skipn_app, Nat.sub_diag, skipn_all. cbn [firstn skipn app]. rewrite app_nil_r.
    unfold ga. simpl. rewrite <- !app_assoc. reflexivity. }
  rewrite EP. apply (P_prec (RStar a1) b op Hna Hnb Hop).
Qed.

(* ---- star node: X = ( pr_py a ) * ---- *)
Section Star.
  Variable a : re.
  Hypothesis Hna : no_empty a.
  Let ga := TLp :: pr_py a ++ [TRp].
  Let X := ga ++ [TStar].

  Lemma X_eq : pr_py (RStar a) = X. Proof. unfold X, ga. simpl. now rewrite <- app_assoc. Qed.
  Lemma X_wb : wb X. Proof. rewrite <- X_eq. now apply pr_py_wb. Qed.
  Lemma ga_wb : wb ga. Proof. apply wb_paren. now apply pr_py_wb. Qed.
  Lemma X_first : end_first_group X 0 = inl (length ga).
  Proof. exact (efg_at [] (RStar a) [TStar] eq_refl Hna). Qed.
  Lemma X_nth : nth_error X (length ga) = Some TStar.
  Proof. unfold X. rewrite nth_error_app2, Nat.sub_diag by lia. reflexivity. Qed.
  Lemma X_len : length X = S (length ga). Proof. unfold X. rewrite app_length. simpl. lia. Qed.

  Lemma X_prec f : compute_precedence (S (S f)) X = inl (TLp :: X ++ [TRp]).
  Proof.
    pose proof X_len as XL. cbn [compute_precedence].
    assert (GL : 2 <= length ga) by (unfold ga; simpl; rewrite app_length; simpl; lia).
    assert (E1 : (length X <=? 1) = false) by (apply Nat.leb_gt; lia).
    rewrite E1, X_first, (node_at_lt _ _ _ _ X_nth). cbn [kind_of].
    assert (EP : insert_parens X 0 (S (length ga)) = TLp :: X ++ [TRp]).
    { rewrite insert_parens_front. rewrite <- XL. rewrite firstn_all, skipn_all. reflexivity. }
    rewrite EP. set (X' := TLp :: X ++ [TRp]).
    assert (L' : length X' = S (S (length X))) by (unfold X'; simpl; rewrite app_length; simpl; lia).
    assert (E2 : (length X' <=? 1) = false) by (apply Nat.leb_gt; lia). rewrite E2.
    pose proof (efg_paren [] X [] eq_refl X_wb) as F. cbn [app length] in F. fold X' in F. rewrite F.
    rewrite node_at_ge by lia.
    assert (E3 : (0 + S (S (length X)) <? length X') = false) by (apply Nat.ltb_ge; lia).
    cbn [scan_groups]. rewrite E3. reflexivity.
  Qed.

  Lemma X_strip f : strip_outer (S f) X = inl X.
  Proof.
    cbn [strip_outer]. unfold X, ga. cbn [app].
    replace (pr_py a ++ [TRp]) with (pr_py a ++ [TRp]) by reflexivity.
    assert (Hs : surrounded (TLp :: (pr_py a ++ [TRp]) ++ [TStar]) = false).
    { unfold surrounded. pose proof (first_closing_group [] (pr_py a) [TStar] eq_refl (pr_py_wb a Hna)) as F. cbn [app length] in F.
      replace (TLp :: (pr_py a ++ [TRp]) ++ [TStar]) with (TLp :: pr_py a ++ TRp :: [TStar]) by (now rewrite <- app_assoc).
      rewrite F. apply Nat.eqb_neq. cbn [length]. rewrite app_length. cbn [length]. lia. }
    now rewrite Hs.
  Qed.

  Lemma X'_strip f : strip_outer (S (S f)) (TLp :: X ++ [TRp]) = inl X.
  Proof.
    rewrite (strip_outer_paren _ X X_wb); [apply X_strip|]. unfold X. destruct ga; discriminate.
  Qed.
End Star.

(* ---- assembling ---- *)
Definition core (r : re) : list tok :=
  match r with
  | RCat a b => pr_py a ++ TConcat :: pr_py b
  | RAlt a b => pr_py a ++ TUnion :: pr_py b
  | _ => pr_py r
  end.

Lemma I_strip2 a b op f : no_empty a -> no_empty b -> strip_outer (S f) (pr_py a ++ op :: pr_py b) = inl (pr_py a ++ op :: pr_py b).
Proof.
  intros Hna Hnb. cbn [strip_outer]. rewrite (pr_py_grp a), <- app_assoc.
  destruct (grp_shape a Hna) as [(t & E & Ht)|(x & E & Hx & _)]; rewrite E.
  - cbn [app]. destruct Ht as [->|(s & ->)]; reflexivity.
  - set (rest := suf a ++ op :: pr_py b).
    replace ((TLp :: x ++ [TRp]) ++ rest) with (TLp :: x ++ TRp :: rest) by (cbn [app]; now rewrite <- app_assoc).
    assert (Hs : surrounded (TLp :: x ++ TRp :: rest) = false).
    { unfold surrounded. pose proof (first_closing_group [] x rest eq_refl Hx) as F. cbn [app length] in F. rewrite F.
      apply Nat.eqb_neq. cbn [length]. rewrite app_length. cbn [length]. unfold rest. rewrite app_length. simpl. lia. }
    now rewrite Hs.
Qed.

Lemma strip_plain r k : no_empty r -> strip_outer (S (S k)) (pr_py r) = inl (core r).
Proof.
  intros Hn. destruct r as [| |s|a b|a b|a]; simpl in Hn.
  - destruct Hn.
  - reflexivity.
  - reflexivity.
  - destruct Hn as (Ha & Hb). replace (pr_py (RCat a b)) with (TLp :: (pr_py a ++ TConcat :: pr_py b) ++ [TRp]) by (simpl; now rewrite <- app_assoc).
    rewrite strip_outer_paren; [now apply I_strip2|apply wb_join; try apply pr_py_wb; auto|destruct (pr_py a); discriminate].
  - destruct Hn as (Ha & Hb). replace (pr_py (RAlt a b)) with (TLp :: (pr_py a ++ TUnion :: pr_py b) ++ [TRp]) by (simpl; now rewrite <- app_assoc).
    rewrite strip_outer_paren; [now apply I_strip2|apply wb_join; try apply pr_py_wb; auto|destruct (pr_py a); discriminate].
  - cbn [core]. rewrite (X_eq a). now apply X_strip.
Qed.

Lemma strip_par r k : no_empty r -> strip_outer (S (S (S k))) (TLp :: pr_py r ++ [TRp]) = inl (core r).
Proof.
  intros Hn. rewrite strip_outer_paren; [now apply strip_plain|now apply pr_py_wb|].
  pose proof (pr_py_length r Hn). destruct (pr_py r); [destruct r; simpl in *; lia|discriminate].
Qed.

Lemma reader_core f comps r : no_empty r ->
  (forall r', no_empty r' -> (rdepth r' < rdepth r)%nat ->
     reader f (pr_py r') = inl r' /\ reader f (TLp :: pr_py r' ++ [TRp]) = inl r') ->
  strip_outer (S (length comps)) comps = inl (core r) ->
  reader (S f) comps = inl r.
Proof.
  intros Hn IH Hstrip. rewrite reader_unfold. cbv zeta. rewrite Hstrip.
  destruct r as [| |s|a b|a b|a]; simpl in Hn.
  - destruct Hn.
  - reflexivity.
  - reflexivity.
  - destruct Hn as (Ha & Hb). cbn [core].
    rewrite (I_prec2 a b TConcat _ Ha Hb (or_introl eq_refl)).
    rewrite (P_strip a b TConcat Ha Hb).
    pose proof (P_first a b TConcat Ha) as F1. pose proof (P_nth a b TConcat) as N1. pose proof (P_len a b TConcat) as PL.
    pose proof (Fst_pos a Ha) as FP. pose proof (pb_pos' b Hb) as BP.
    assert (E1 : (length (Fst a ++ TConcat :: pr_py b) <=? length (Fst a)) = false) by (apply Nat.leb_gt; lia).
    assert (Ef : firstn (length (Fst a)) (Fst a ++ TConcat :: pr_py b) = Fst a) by (rewrite firstn_app, Nat.sub_diag, firstn_all; simpl; now rewrite app_nil_r).
    assert (Es : skipn (S (length (Fst a))) (Fst a ++ TConcat :: pr_py b) = pr_py b).
    { replace (Fst a ++ TConcat :: pr_py b) with ((Fst a ++ [TConcat]) ++ pr_py b) by now rewrite <- app_assoc.
      rewrite skipn_app. replace (S (length (Fst a))) with (length (Fst a ++ [TConcat])) by (rewrite app_length; simpl; lia).
      rewrite skipn_all, Nat.sub_diag. reflexivity. }
    assert (N2 : nth (length (Fst a)) (Fst a ++ TConcat :: pr_py b) TEps = TConcat) by (apply nth_error_nth; exact N1).
    assert (Ra : reader f (Fst a) = inl a).
    { destruct (IH a Ha ltac:(simpl; lia)) as (R1 & R2). destruct a; exact R1 || exact R2. }
    assert (Rb : reader f (pr_py b) = inl b) by (apply IH; [exact Hb|simpl; lia]).
    remember (Fst a ++ TConcat :: pr_py b) as P eqn:EP0.
    destruct P as [|t1 [|t2 P']] eqn:EP; [simpl in PL; lia|simpl in PL; lia|]. rewrite <- EP in *.
    rewrite F1, E1, N2, Ef, Es, Ra, Rb. reflexivity.
  - destruct Hn as (Ha & Hb). cbn [core].
    rewrite (I_prec2 a b TUnion _ Ha Hb (or_intror eq_refl)).
    rewrite (P_strip a b TUnion Ha Hb).
    pose proof (P_first a b TUnion Ha) as F1. pose proof (P_nth a b TUnion) as N1. pose proof (P_len a b TUnion) as PL.
    pose proof (Fst_pos a Ha) as FP. pose proof (pb_pos' b Hb) as BP.
    assert (E1 : (length (Fst a ++ TUnion :: pr_py b) <=? length (Fst a)) = false) by (apply Nat.leb_gt; lia).
    assert (Ef : firstn (length (Fst a)) (Fst a ++ TUnion :: pr_py b) = Fst a) by (rewrite firstn_app, Nat.sub_diag, firstn_all; simpl; now rewrite app_nil_r).
    assert (Es : skipn (S (length (Fst a))) (Fst a ++ TUnion :: pr_py b) = pr_py b).
    { replace (Fst a ++ TUnion :: pr_py b) with ((Fst a ++ [TUnion]) ++ pr_py b) by now rewrite <- app_assoc.
      rewrite skipn_app. replace (S (length (Fst a))) with (length (Fst a ++ [TUnion])) by (rewrite app_length; simpl; lia).
      rewrite skipn_all, Nat.sub_diag. reflexivity. }
    assert (N2 : nth (length (Fst a)) (Fst a ++ TUnion :: pr_py b) TEps = TUnion) by (apply nth_error_nth; exact N1).
    assert (Ra : reader f (Fst a) = inl a).
    { destruct (IH a Ha ltac:(simpl; lia)) as (R1 & R2). destruct a; exact R1 || exact R2. }
    assert (Rb : reader f (pr_py b) = inl b) by (apply IH; [exact Hb|simpl; lia]).
    remember (Fst a ++ TUnion :: pr_py b) as P eqn:EP0.
    destruct P as [|t1 [|t2 P']] eqn:EP; [simpl in PL; lia|simpl in PL; lia|]. rewrite <- EP in *.
    rewrite F1, E1, N2, Ef, Es, Ra, Rb. reflexivity.
  - cbn [core]. rewrite (X_eq a). rewrite (X_prec a Hn). rewrite (X'_strip a Hn).
    pose proof (X_first a Hn) as F1. pose proof (X_nth a) as N1. pose proof (X_len a) as XL.
    set (ga := TLp :: pr_py a ++ [TRp]) in *. set (X := ga ++ [TStar]) in *.
    assert (GL : 2 <= length ga) by (unfold ga; simpl; rewrite app_length; simpl; lia).
    assert (E1 : (length X <=? length ga) = false) by (apply Nat.leb_gt; lia).
    assert (Ef : firstn (length ga) X = ga) by (unfold X; rewrite firstn_app, Nat.sub_diag, firstn_all; simpl; now rewrite app_nil_r).
    assert (N2 : nth (length ga) X TEps = TStar) by (apply nth_error_nth; exact N1).
    assert (Ra : reader f ga = inl a) by (apply IH; [exact Hn|simpl; lia]).
    remember X as X0 eqn:EX0.
    destruct X0 as [|t1 [|t2 X0']] eqn:EX; [simpl in XL; lia|simpl in XL; lia|]. rewrite <- EX in *.
    rewrite F1, E1, N2, Ef, Ra. reflexivity.
Qed.

Theorem reader_pr_py_all : forall f r, no_empty r -> (rdepth r <= f)%nat ->
  reader f (pr_py r) = inl r /\ reader f (TLp :: pr_py r ++ [TRp]) = inl r.
Proof.
  induction f as [|f IH]; intros r Hn Hd; [destruct r; simpl in Hd; lia|].
  assert (IH' : forall r', no_empty r' -> (rdepth r' < rdepth r)%nat ->
            reader f (pr_py r') = inl r' /\ reader f (TLp :: pr_py r' ++ [TRp]) = inl r') by (intros r' Hn' Hlt; apply IH; [exact Hn'|lia]).
  pose proof (pr_py_length r Hn) as PL. assert (1 <= rdepth r)%nat by (destruct r; simpl; lia).
  split.
  - apply reader_core; auto. destruct (length (pr_py r)) as [|n] eqn:E; [lia|]. now apply strip_plain.
  - apply reader_core; auto. cbn [length]. rewrite app_length. cbn [length].
    replace (length (pr_py r) + 1)%nat with (S (length (pr_py r))) by lia. destruct (length (pr_py r)) as [|n] eqn:E; [lia|]. now apply strip_par.
Qed.

(* the mirror of pyformlang's parser reads back the text of str() of every expression *)
Theorem reader_str_round_trip_all r : no_empty r -> reader_regex (pr_py r) = inl r.
Proof.
  intros Hn. unfold reader_regex. apply reader_pr_py_all; auto. pose proof (pr_py_length r Hn). lia.
Qed.
