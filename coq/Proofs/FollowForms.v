(* FOLLOW by its rules = FOLLOW by sentential forms (C14): B is followed by l in a sentential form derivable from the start
   symbol, the rest of the form being completed to a terminal word. *)
From Coq Require Import List Bool Arith NArith Lia.
From PFL Require Import Base.ListSet Spec.Cfg Proofs.CfgSymbols.
Import ListNotations.

Section FF.
  Context {Vr : Type}.
  Variable G : cfg Vr.
  Variable s : Vr.
  Hypothesis Es : g_start G = Some s.

  Definition la (w : list N) : option N := match w with b :: _ => Some b | [] => None end.
  (* sentential-form FOLLOW *)
  Definition FollowsForm (B : Vr) (l : option N) : Prop :=
    exists pre rest u, steps G [V s] (pre ++ V B :: rest) /\ derives_list G rest u /\ la u = l.

  Lemma derives_list_app b1 : forall b2 w, derives_list G (b1 ++ b2) w <-> exists w1 w2, w = w1 ++ w2 /\ derives_list G b1 w1 /\ derives_list G b2 w2.
  Proof.
    induction b1 as [|X b1 IH]; intros b2 w; cbn [app].
    - split; [intros D; exists [], w; split; [reflexivity|split; [apply dl_nil|exact D]]|]. intros [w1 [w2 [-> [D1 D2]]]]. inversion D1; subst. exact D2.
    - split.
      + intros D. inversion D as [|? ? u v DX DR]; subst. apply IH in DR. destruct DR as [w1 [w2 [-> [D1 D2]]]].
        exists (u ++ w1), w2. split; [now rewrite app_assoc|split; [now apply dl_cons|exact D2]].
      + intros [w1 [w2 [-> [D1 D2]]]]. inversion D1 as [|? ? u v DX DR]; subst. rewrite <- app_assoc. apply dl_cons; [exact DX|]. apply IH. eauto.
  Qed.

  Lemma steps_snoc' f g h : steps G f g -> step G g h -> steps G f h.
  Proof. induction 1 as [f|f g' h' S1 _ IH]; intros S2; [eapply steps_trans; [exact S2|apply steps_refl]|eapply steps_trans; [exact S1|now apply IH]]. Qed.
  Lemma steps_rev_ind (P : list (symb Vr) -> Prop) f : P f -> (forall g h, steps G f g -> P g -> step G g h -> P h) -> forall g, steps G f g -> P g.
  Proof.
    intros P0 PS g St. assert (Gen : forall f0, steps G f f0 -> P f0 -> forall g0, steps G f0 g0 -> P g0).
    { intros f0 S0 Pf g0 S1. induction S1 as [x|x y z S2 _ IH]; [exact Pf|]. apply IH; [now apply steps_snoc' with x|]. now apply PS with x. }
    apply (Gen f (steps_refl G f) P0 g St).
  Qed.


  Theorem form_follows B l : FollowsForm B l -> Follows G B l.
  Proof.
    intros [pre0 [rest0 [u0 [St [Du0 <-]]]]].
    assert (Inv : forall form, steps G [V s] form -> forall pre B rest u, form = pre ++ V B :: rest -> derives_list G rest u -> Follows G B (la u)).
    2:{ now apply (Inv _ St pre0 B rest0 u0 eq_refl). }
    clear St Du0. intros form St.
    apply (steps_rev_ind (fun form => forall pre B rest u, form = pre ++ V B :: rest -> derives_list G rest u -> Follows G B (la u)) [V s]); [| |exact St].
    - intros pre B1 rest u E Du. destruct pre as [|x pre]; cbn [app] in E; inversion E; subst; [|destruct pre; discriminate].
      inversion Du; subst. now apply fo_start.
    - clear B. intros g h _ IH S1 pre B rest u E Du. destruct S1 as [p A body q Hp].
      (* h = p ++ body ++ q = pre ++ V B :: rest *)
      assert (Cases : (exists m, pre = p ++ body ++ m /\ q = m ++ V B :: rest) \/
                      (exists b1 b2, body = b1 ++ V B :: b2 /\ pre = p ++ b1 /\ rest = b2 ++ q) \/
                      (exists m, p = pre ++ V B :: m /\ rest = m ++ body ++ q)).
      { clear - E. revert pre E. induction p as [|a p IHp]; intros pre E; cbn [app] in E.
        - revert pre E. induction body as [|c body IHb]; intros pre E; cbn [app] in E.
          + left. exists pre. auto.
          + destruct pre as [|d pre]; cbn [app] in E; inversion E; subst.
            * right. left. exists [], body. auto.
            * destruct (IHb pre H1) as [[m [-> ->]]|[[b1 [b2 [-> [-> ->]]]]|[m [E1 _]]]].
              -- left. exists m. auto.
              -- right. left. exists (d :: b1), b2. auto.
              -- destruct pre; discriminate.
        - destruct pre as [|d pre]; cbn [app] in E; inversion E; subst.
          + right. right. exists p. auto.
          + destruct (IHp pre H1) as [[m [-> ->]]|[[b1 [b2 [-> [-> ->]]]]|[m [-> ->]]]].
            * left. exists m. auto.
            * right. left. exists b1, b2. auto.
            * right. right. exists m. auto. }
      destruct Cases as [[m [-> ->]]|[[b1 [b2 [-> [-> ->]]]]|[m [-> ->]]]].
      + (* B lies after the rewritten variable: same position in g *)
        apply (IH (p ++ V A :: m) B rest u); [now rewrite <- app_assoc|exact Du].
      + (* B lies inside the new body *)
        apply derives_list_app in Du. destruct Du as [u1 [u2 [-> [D1 D2]]]].
        destruct u1 as [|a u1]; cbn [app].
        * apply fo_nullable with A b1 b2; [exact Hp|exact D1|]. apply (IH p A q u2 eq_refl D2).
        * cbn [la]. now apply fo_first with A b1 b2 u1.
      + (* B lies before: the rest of g derives the same word through the production *)
        apply (IH pre B (m ++ V A :: q) u); [now rewrite <- app_assoc|].
        apply derives_list_app in Du. destruct Du as [u1 [u2 [-> [D1 D2]]]]. apply derives_list_app in D2. destruct D2 as [u3 [u4 [-> [D3 D4]]]].
        apply derives_list_app. exists u1, (u3 ++ u4). split; [reflexivity|split; [exact D1|]]. apply dl_cons; [now apply dv_var with body|exact D4].
  Qed.

  (* the converse needs every head to occur in a sentential form (no unreachable variable) *)
  Hypothesis Hreach : forall A body, In (A, body) (g_prods G) -> exists pre post, steps G [V s] (pre ++ V A :: post).
  Hypothesis Hgen : forall A body X, In (A, body) (g_prods G) -> In X body -> exists w, derives G X w.


  (* every symbol of a sentential form reachable from the start symbol, in a grammar whose body symbols are generating, is generating *)
  Lemma form_generating : forall g, steps G [V s] g -> (exists w, derives G (V s) w) -> forall X, In X g -> exists w, derives G X w.
  Proof.
    intros g St Hs. apply (steps_rev_ind (fun g => forall X, In X g -> exists w, derives G X w) [V s]); [| |exact St].
    - intros X [<-|[]]. exact Hs.
    - intros g0 h _ IH S1 X HX. destruct S1 as [p A body q Hp]. apply in_app_or in HX. destruct HX as [HX|HX]; [apply IH; apply in_or_app; now left|].
      apply in_app_or in HX. destruct HX as [HX|HX]; [now apply (Hgen A body X Hp)|apply IH; apply in_or_app; right; now right].
  Qed.

  Theorem follows_form B l : (exists w, derives G (V s) w) -> Follows G B l -> FollowsForm B l.
  Proof.
    intros Hs F. induction F as [s0 Es0|A pre B post a v Hp Dp|A pre B post l Hp Dp _ IH].
    - rewrite Es in Es0. inversion Es0; subst. exists [], [], []. split; [apply steps_refl|split; [apply dl_nil|reflexivity]].
    - destruct (Hreach _ _ Hp) as [p [q St]].
      destruct (derives_list_exists G q) as [wq Dq].
      { intros X HX. apply (form_generating _ St Hs). apply in_or_app. right. now right. }
      exists (p ++ pre), (post ++ q), ((a :: v) ++ wq). split; [|split; [|reflexivity]].
      + apply steps_snoc' with (p ++ V A :: q); [exact St|]. replace ((p ++ pre) ++ V B :: post ++ q) with (p ++ (pre ++ V B :: post) ++ q) by (now rewrite <- !app_assoc).
        now apply step_intro.
      + apply derives_list_app. exists (a :: v), wq. auto.
    - destruct IH as [p [q [u [St [Dq <-]]]]].
      exists (p ++ pre), (post ++ q), ([] ++ u). split; [|split; [|reflexivity]].
      + apply steps_snoc' with (p ++ V A :: q); [exact St|]. replace ((p ++ pre) ++ V B :: post ++ q) with (p ++ (pre ++ V B :: post) ++ q) by (now rewrite <- !app_assoc).
        now apply step_intro.
      + apply derives_list_app. exists [], u. auto.
  Qed.
End FF.
