(* CFG.to_pda().to_cfg() and the two acceptance-mode wrappers in sequence: compositions of the proved conversions *)
From Coq Require Import List NArith.
From PFL Require Import Base.ListSet Spec.Cfg Spec.Pda Model.Cfg Model.Pda Proofs.PdaCfg Proofs.PdaWrap.
Import ListNotations.

Theorem cfg_pda_cfg {Vr : Type} `{EqDec Vr} (Gm : cfg Vr) :
  (forall A body a, In (A, body) (g_prods Gm) -> In (T a) body -> In a (g_terms Gm)) ->
  forall w, LangG (pda_to_cfg (cfg_to_pda Gm)) w <-> LangG Gm w.
Proof.
  intros Hreg w. rewrite pda_to_cfg_lang.
  - now apply cfg_to_pda_lang.
  - intros q l A r push _. destruct r. now left.
Qed.
