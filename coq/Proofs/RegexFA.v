From Coq Require Import List Bool NArith Lia.
From PFL Require Import Base.ListSet Spec.Enfa Spec.Regex Model.RegexFA Proofs.EnfaRuns.
Import ListNotations.

Inductive lstar (L : list N -> Prop) : list N -> Prop :=
| ls_nil : lstar L []
| ls_app u v : L u -> lstar L v -> lstar L (u ++ v).

Section Lift.
  Context {Q R : Type}.
  Variable f : Q -> R.
  Variable A : enfa Q.
  Variable U : enfa R.
  Lemma lift_edges_In p l q : In (p, l, q) (e_delta A) -> In (f p, l, f q) (lift_edges f (e_delta A)).
  Proof. intros Hd. unfold lift_edges. apply in_map_iff. exists (p, l, q). auto. Qed.
  Lemma lift_edges_inv x l y : In (x, l, y) (lift_edges f (e_delta A)) -> exists p q, x = f p /\ y = f q /\ In (p, l, q) (e_delta A).
  Proof. unfold lift_edges. rewrite in_map_iff. intros [[[p l'] q] [E Hd]]. inversion E; subst. eauto. Qed.

  Lemma run_lift : (forall p l q, In (p, l, q) (e_delta A) -> In (f p, l, f q) (e_delta U)) ->
    forall p w q, run A p w q -> run U (f p) w (f q).
  Proof.
    intros I p w q Rn. induction Rn as [q|q q' w r Hd Rn IH|q a q' w r Hd Rn IH].
    - apply run_nil.
    - apply run_eps with (f q'); auto.
    - apply run_sym with (f q'); auto.
  Qed.

  Lemma run_unlift : (forall p l x, In (f p, l, x) (e_delta U) -> exists q, x = f q /\ In (p, l, q) (e_delta A)) ->
    forall x w y, run U x w y -> forall p, x = f p -> exists q, y = f q /\ run A p w q.
  Proof.
    intros I x w y Rn. induction Rn as [q|q q' w r Hd Rn IH|q a q' w r Hd Rn IH]; intros p ->.
    - exists p. split; [reflexivity|apply run_nil].
    - destruct (I _ _ _ Hd) as [p' [-> Hd']]. destruct (IH p' eq_refl) as [q0 [-> R0]].
      exists q0. split; [reflexivity|]. apply run_eps with p'; auto.
    - destruct (I _ _ _ Hd) as [p' [-> Hd']]. destruct (IH p' eq_refl) as [q0 [-> R0]].
      exists q0. split; [reflexivity|]. apply run_sym with p'; auto.
  Qed.
End Lift.

Lemma in_inl_app {X Y} (q : X) (l1 : list X) (l2 : list Y) : In (inl q) (map inl l1 ++ map inr l2) -> In q l1.
Proof.
  rewrite in_app_iff, !in_map_iff. intros [[x [E Hx]]|[x [E Hx]]]; inversion E; subst; auto.
Qed.
Lemma in_inr_app {X Y} (q : Y) (l1 : list X) (l2 : list Y) : In (inr q) (map inl l1 ++ map inr l2) -> In q l2.
Proof.
  rewrite in_app_iff, !in_map_iff. intros [[x [E Hx]]|[x [E Hx]]]; inversion E; subst; auto.
Qed.

(* ---------------- atoms ---------------- *)
Lemma fa_empty_lang w : ~ Lang fa_empty w.
Proof. intros [s [f [_ [[] _]]]]. Qed.

Lemma fa_eps_lang w : Lang fa_eps w <-> w = [].
Proof.
  split.
  - intros [s [f [_ [_ Rn]]]]. inversion Rn as [|? ? ? ? Hd|? ? ? ? ? Hd]; subst; [reflexivity|destruct Hd|destruct Hd].
  - intros ->. exists tt, tt. cbn. repeat split; auto. apply run_nil.
Qed.

Lemma fa_sym_lang a w : Lang (fa_sym a) w <-> w = [a].
Proof.
  split.
  - intros [s [f [[<-|[]] [[<-|[]] Rn]]]].
    inversion Rn as [|? ? ? ? Hd|? ? ? ? ? Hd Rn']; subst.
    + destruct Hd as [E|[]]. discriminate.
    + destruct Hd as [E|[]]. inversion E; subst.
      inversion Rn' as [|? ? ? ? Hd'|? ? ? ? ? Hd']; subst; [reflexivity| |];
        destruct Hd' as [E'|[]]; discriminate.
  - intros ->. exists false, true. cbn. repeat split; auto. apply run_sym with true; [now left|apply run_nil].
Qed.

(* ---------------- union ---------------- *)
Section Union.
  Context {Q1 Q2 : Type}.
  Variable A : enfa Q1.
  Variable B : enfa Q2.
  Let U := fa_union A B.

  Lemma U_edge_l p l x : In (inl p, l, x) (e_delta U) -> exists q, x = inl q /\ In (p, l, q) (e_delta A).
  Proof.
    unfold U, fa_union. cbn [e_delta]. rewrite in_app_iff. intros [Hd|Hd]; apply lift_edges_inv in Hd;
      destruct Hd as [p' [q [E1 [-> Hd]]]]; inversion E1; subst. eauto.
  Qed.
  Lemma U_edge_r p l x : In (inr p, l, x) (e_delta U) -> exists q, x = inr q /\ In (p, l, q) (e_delta B).
  Proof.
    unfold U, fa_union. cbn [e_delta]. rewrite in_app_iff. intros [Hd|Hd]; apply lift_edges_inv in Hd;
      destruct Hd as [p' [q [E1 [-> Hd]]]]; inversion E1; subst. eauto.
  Qed.

  Theorem fa_union_lang w : Lang U w <-> Lang A w \/ Lang B w.
  Proof.
    split.
    - intros [s [f [Hs [Hf Rn]]]]. unfold U, fa_union in Hs, Hf. cbn [e_starts e_finals] in Hs, Hf.
      apply in_app_iff in Hs. destruct Hs as [Hs|Hs]; apply in_map_iff in Hs; destruct Hs as [s0 [<- Hs0]].
      + left. destruct (run_unlift inl A U U_edge_l _ _ _ Rn s0 eq_refl) as [q [-> RA]].
        apply in_inl_app in Hf. exists s0, q. auto.
      + right. destruct (run_unlift inr B U U_edge_r _ _ _ Rn s0 eq_refl) as [q [-> RB]].
        apply in_inr_app in Hf. exists s0, q. auto.
    - intros [[s [f [Hs [Hf Rn]]]]|[s [f [Hs [Hf Rn]]]]].
      + exists (inl s), (inl f). unfold U, fa_union. cbn [e_starts e_finals]. repeat split.
        * apply in_or_app. left. now apply in_map.
        * apply in_or_app. left. now apply in_map.
        * apply (run_lift inl A); [|exact Rn]. intros p l q Hd. cbn [e_delta]. apply in_or_app. left. now apply lift_edges_In.
      + exists (inr s), (inr f). unfold U, fa_union. cbn [e_starts e_finals]. repeat split.
        * apply in_or_app. right. now apply in_map.
        * apply in_or_app. right. now apply in_map.
        * apply (run_lift inr B); [|exact Rn]. intros p l q Hd. cbn [e_delta]. apply in_or_app. right. now apply lift_edges_In.
  Qed.
End Union.

(* ---------------- concatenation ---------------- *)
Section Concat.
  Context {Q1 Q2 : Type}.
  Variable A : enfa Q1.
  Variable B : enfa Q2.
  Let C := fa_concat A B.

  Lemma C_edge_l p l x : In (inl p, l, x) (e_delta C) ->
    (exists q, x = inl q /\ In (p, l, q) (e_delta A)) \/
    (exists s, x = inr s /\ l = None /\ In p (e_finals A) /\ In s (e_starts B)).
  Proof.
    unfold C, fa_concat. cbn [e_delta]. rewrite !in_app_iff. intros [Hd|[Hd|Hd]].
    - apply lift_edges_inv in Hd. destruct Hd as [p' [q [E1 [-> Hd]]]]. inversion E1; subst. left. eauto.
    - apply lift_edges_inv in Hd. destruct Hd as [p' [q [E1 _]]]. discriminate.
    - apply in_flat_map in Hd. destruct Hd as [f [Hf Hd]]. apply in_map_iff in Hd. destruct Hd as [s [E Hs]].
      inversion E; subst. right. eauto.
  Qed.
  Lemma C_edge_r p l x : In (inr p, l, x) (e_delta C) -> exists q, x = inr q /\ In (p, l, q) (e_delta B).
  Proof.
    unfold C, fa_concat. cbn [e_delta]. rewrite !in_app_iff. intros [Hd|[Hd|Hd]].
    - apply lift_edges_inv in Hd. destruct Hd as [p' [q [E1 _]]]. discriminate.
    - apply lift_edges_inv in Hd. destruct Hd as [p' [q [E1 [-> Hd]]]]. inversion E1; subst. eauto.
    - apply in_flat_map in Hd. destruct Hd as [f [Hf Hd]]. apply in_map_iff in Hd. destruct Hd as [s [E Hs]]. discriminate.
  Qed.

  Lemma C_split x w y : run C x w y -> forall p q, x = inl p -> y = inr q ->
    exists u v f s, w = u ++ v /\ run A p u f /\ In f (e_finals A) /\ In s (e_starts B) /\ run B s v q.
  Proof.
    intros Rn. induction Rn as [x|x x' w y Hd Rn IH|x a x' w y Hd Rn IH]; intros p q -> Ey.
    - discriminate.
    - apply C_edge_l in Hd. destruct Hd as [[p' [-> Hd]]|[s [-> [_ [Hf Hs]]]]].
      + destruct (IH p' q eq_refl Ey) as [u [v [f [s [-> [RA [Hf [Hs RB]]]]]]]].
        exists u, v, f, s. repeat split; auto. apply run_eps with p'; auto.
      + subst y. destruct (run_unlift inr B C C_edge_r _ _ _ Rn s eq_refl) as [q' [E RB]]. inversion E; subst.
        exists [], w, p, s. repeat split; auto. apply run_nil.
    - apply C_edge_l in Hd. destruct Hd as [[p' [-> Hd]]|[s [_ [X _]]]]; [|discriminate].
      destruct (IH p' q eq_refl Ey) as [u [v [f [s [-> [RA [Hf [Hs RB]]]]]]]].
      exists (a :: u), v, f, s. repeat split; auto. apply run_sym with p'; auto.
  Qed.

  Theorem fa_concat_lang w : Lang C w <-> exists u v, w = u ++ v /\ Lang A u /\ Lang B v.
  Proof.
    split.
    - intros [x [y [Hx [Hy Rn]]]]. unfold C, fa_concat in Hx, Hy. cbn [e_starts e_finals] in Hx, Hy.
      apply in_map_iff in Hx, Hy. destruct Hx as [s0 [<- Hs0]], Hy as [f0 [<- Hf0]].
      destruct (C_split _ _ _ Rn s0 f0 eq_refl eq_refl) as [u [v [f [s [-> [RA [Hf [Hs RB]]]]]]]].
      exists u, v. split; [reflexivity|]. split; [exists s0, f|exists s, f0]; auto.
    - intros [u [v [-> [[s [f [Hs [Hf RA]]]] [s' [f' [Hs' [Hf' RB]]]]]]]].
      exists (inl s), (inr f'). unfold C, fa_concat. cbn [e_starts e_finals]. split; [now apply in_map|split; [now apply in_map|]].
      eapply run_app.
      + apply (run_lift inl A); [|exact RA]. intros p l q Hd. cbn [e_delta]. apply in_or_app. left. now apply lift_edges_In.
      + apply run_eps with (inr s').
        * cbn [e_delta]. apply in_or_app. right. apply in_or_app. right. apply in_flat_map. exists f. split; [exact Hf|].
          apply in_map_iff. eauto.
        * apply (run_lift inr B); [|exact RB]. intros p l q Hd. cbn [e_delta]. apply in_or_app. right. apply in_or_app. left.
          now apply lift_edges_In.
  Qed.
End Concat.

(* ---------------- star ---------------- *)
Section Star.
  Context {Q : Type}.
  Variable A : enfa Q.
  Let S := fa_star A.

  Lemma S_edge x l y : In (x, l, y) (e_delta S) ->
    (exists p q, x = Some p /\ y = Some q /\ In (p, l, q) (e_delta A)) \/
    (exists s, x = None /\ y = Some s /\ l = None /\ In s (e_starts A)) \/
    (exists f, x = Some f /\ y = None /\ l = None /\ In f (e_finals A)).
  Proof.
    unfold S, fa_star. cbn [e_delta]. rewrite !in_app_iff. intros [Hd|[Hd|Hd]].
    - apply lift_edges_inv in Hd. destruct Hd as [p [q [-> [-> Hd]]]]. left. eauto.
    - apply in_map_iff in Hd. destruct Hd as [s [E Hs]]. inversion E; subst. right; left. eauto.
    - apply in_map_iff in Hd. destruct Hd as [f [E Hf]]. inversion E; subst. right; right. eauto.
  Qed.

  Lemma S_runs x w y : run S x w y -> y = None ->
    match x with
    | None => lstar (Lang A) w
    | Some p => exists u v f, w = u ++ v /\ run A p u f /\ In f (e_finals A) /\ lstar (Lang A) v
    end.
  Proof.
    intros Rn. induction Rn as [x|x x' w y Hd Rn IH|x a x' w y Hd Rn IH]; intros Ey.
    - subst. apply ls_nil.
    - specialize (IH Ey). apply S_edge in Hd.
      destruct Hd as [[p [q [-> [-> Hd]]]]|[[s [-> [-> [_ Hs]]]]|[f [-> [-> [_ Hf]]]]]].
      + destruct IH as [u [v [f [-> [RA [Hf Lv]]]]]]. exists u, v, f. repeat split; auto. apply run_eps with q; auto.
      + destruct IH as [u [v [f [-> [RA [Hf Lv]]]]]]. apply ls_app; [|exact Lv]. exists s, f. auto.
      + exists [], w, f. repeat split; auto. apply run_nil.
    - specialize (IH Ey). apply S_edge in Hd.
      destruct Hd as [[p [q [-> [-> Hd]]]]|[[s [_ [_ [X _]]]]|[f [_ [_ [X _]]]]]]; try discriminate.
      destruct IH as [u [v [f [-> [RA [Hf Lv]]]]]]. exists (a :: u), v, f. repeat split; auto. apply run_sym with q; auto.
  Qed.

  Theorem fa_star_lang w : Lang S w <-> lstar (Lang A) w.
  Proof.
    split.
    - intros [x [y [[<-|[]] [[<-|[]] Rn]]]]. apply (S_runs _ _ _ Rn eq_refl).
    - intros L. exists None, None. unfold S, fa_star. cbn [e_starts e_finals]. split; [now left|split; [now left|]].
      induction L as [|u v [s [f [Hs [Hf RA]]]] Lv IH]; [apply run_nil|].
      apply run_eps with (Some s).
      + cbn [e_delta]. apply in_or_app. right. apply in_or_app. left. apply in_map_iff. eauto.
      + eapply run_app.
        * apply (run_lift Some A); [|exact RA]. intros p l q Hd. cbn [e_delta]. apply in_or_app. left. now apply lift_edges_In.
        * apply run_eps with None; [|exact IH]. cbn [e_delta]. apply in_or_app. right. apply in_or_app. right.
          apply in_map_iff. eauto.
  Qed.
End Star.

(* ---------------- regular expressions ---------------- *)
Lemma den_star_lstar r w : den (RStar r) w <-> lstar (den r) w.
Proof.
  split.
  - intros D. remember (RStar r) as s eqn:E. induction D; inversion E; subst; [apply ls_nil|].
    apply ls_app; auto.
  - induction 1; [apply d_star0|apply d_star1; auto].
Qed.

Lemma lstar_ext (L L' : list N -> Prop) : (forall w, L w <-> L' w) -> forall w, lstar L w <-> lstar L' w.
Proof. intros E w. split; induction 1; try apply ls_nil; apply ls_app; auto; now apply E. Qed.

Theorem re_fa_lang r : forall w, Lang (re_fa r) w <-> den r w.
Proof.
  induction r as [| |a|r1 IH1 r2 IH2|r1 IH1 r2 IH2|r IH]; intros w; cbn [re_fa re_st].
  - split; [intros L; destruct (fa_empty_lang _ L)|intros D; inversion D].
  - rewrite fa_eps_lang. split; [intros ->; apply d_eps|intros D; now inversion D].
  - rewrite fa_sym_lang. split; [intros ->; apply d_sym|intros D; now inversion D].
  - rewrite fa_concat_lang. split.
    + intros [u [v [-> [L1 L2]]]]. apply d_cat; [now apply IH1|now apply IH2].
    + intros D. inversion D; subst. exists u, v. split; [reflexivity|]. split; [now apply IH1|now apply IH2].
  - rewrite fa_union_lang. split.
    + intros [L|L]; [apply d_altl; now apply IH1|apply d_altr; now apply IH2].
    + intros D. inversion D; subst; [left; now apply IH1|right; now apply IH2].
  - rewrite fa_star_lang, den_star_lstar. now apply lstar_ext.
Qed.
