From Coq Require Import List Bool Arith NArith Lia.
From PFL Require Import Base.Loop Base.ListSet Base.Closure Spec.Fst Model.Fst.
Import ListNotations.

Section T.
  Context {Q : Type} `{EqDec Q}.
  Variable F : fst Q.

  Definition ol (l : option N) : list N := match l with Some a => [a] | None => [] end.

  (* runs growing at the end *)
  Inductive rfrun (s : Q) : list N -> list N -> Q -> Prop :=
  | rf_nil : rfrun s [] [] s
  | rf_snoc u o q l r out : rfrun s u o q -> In (q, l, r, out) (f_delta F) -> rfrun s (u ++ ol l) (o ++ out) r.

  Lemma frun_edge q l r out : In (q, l, r, out) (f_delta F) -> frun F q (ol l) out r.
  Proof.
    intros Hd. rewrite <- (app_nil_r out). destruct l as [a|]; cbn [ol].
    - apply fr_sym with r; [exact Hd|apply fr_nil].
    - apply fr_eps with r; [exact Hd|apply fr_nil].
  Qed.
  Lemma frun_app p u o q v o' r : frun F p u o q -> frun F q v o' r -> frun F p (u ++ v) (o ++ o') r.
  Proof.
    intros R1 R2. induction R1 as [q|q q' o1 w o2 r' Hd R IH|q a q' o1 w o2 r' Hd R IH]; cbn [app].
    - exact R2.
    - rewrite <- app_assoc. apply fr_eps with q'; auto.
    - rewrite <- app_assoc. apply fr_sym with q'; auto.
  Qed.
  Lemma rfrun_cons s l s' out u o q : In (s, l, s', out) (f_delta F) -> rfrun s' u o q -> rfrun s (ol l ++ u) (out ++ o) q.
  Proof.
    intros Hd R. induction R as [|u o q l' r out' R IH Hd'].
    - rewrite !app_nil_r. exact (rf_snoc s [] [] s l s' out (rf_nil s) Hd).
    - rewrite !app_assoc. apply rf_snoc with q; auto.
  Qed.
  Lemma frun_rfrun s u o q : frun F s u o q <-> rfrun s u o q.
  Proof.
    split.
    - induction 1 as [q|q q' o1 w o2 r Hd R IH|q a q' o1 w o2 r Hd R IH].
      + apply rf_nil.
      + apply (rfrun_cons q None q' o1 w o2 r Hd IH).
      + apply (rfrun_cons q (Some a) q' o1 w o2 r Hd IH).
    - induction 1 as [|u o q l r out R IH Hd]; [apply fr_nil|]. eapply frun_app; [exact IH|now apply frun_edge].
  Qed.

  Variable w : list N.
  Let init := map (fun s => (w, @nil N, s)) (f_starts F).

  Lemma tsucc_In rem gen q c : In c (tsucc F (rem, gen, q)) <->
    exists l r out rest, In (q, l, r, out) (f_delta F) /\ rem = ol l ++ rest /\ c = (rest, gen ++ out, r).
  Proof.
    unfold tsucc. rewrite in_flat_map. split.
    - intros [[[[p l] r] out] [Hd Hc]]. destruct (eqb_spec p q) as [->|]; [|destruct Hc].
      destruct l as [a|].
      + destruct rem as [|b rest]; [destruct Hc|]. destruct (N.eqb_spec a b) as [->|]; [|destruct Hc].
        destruct Hc as [<-|[]]. exists (Some b), r, out, rest. auto.
      + destruct Hc as [<-|[]]. exists None, r, out, rem. auto.
    - intros [l [r [out [rest [Hd [-> ->]]]]]]. exists (q, l, r, out). split; [exact Hd|]. rewrite eqb_refl.
      destruct l as [a|]; cbn [ol app]; [rewrite N.eqb_refl|]; now left.
  Qed.

  Lemma treach_spec rem gen q : reach (tsucc F) init (rem, gen, q) <->
    exists s u, In s (f_starts F) /\ w = u ++ rem /\ rfrun s u gen q.
  Proof.
    split.
    - intros R. remember (rem, gen, q) as c eqn:Ec. revert rem gen q Ec.
      induction R as [c Hc|c d Hc IH Hd]; intros rem gen q Ec; subst.
      + unfold init in Hc. apply in_map_iff in Hc. destruct Hc as [s [E Hs]]. injection E as <- <- <-.
        exists s, []. split; [exact Hs|]. split; [reflexivity|apply rf_nil].
      + destruct c as [[rem0 gen0] q0]. apply tsucc_In in Hd. destruct Hd as [l [r [out [rest [Hd [-> E]]]]]]. inversion E; subst.
        destruct (IH _ _ _ eq_refl) as [s [u [Hs [Ew Rr]]]]. exists s, (u ++ ol l). split; [exact Hs|]. split.
        * now rewrite Ew, <- app_assoc.
        * now apply rf_snoc with q0.
    - intros [s [u [Hs [Ew Rr]]]]. revert rem Ew. induction Rr as [|u o q l r out Rr IH Hd]; intros rem Ew.
      + cbn in Ew. subst rem. apply reach_init. unfold init. apply in_map_iff. eauto.
      + apply reach_step with (ol l ++ rem, o, q).
        * apply IH. now rewrite Ew, <- app_assoc.
        * apply tsucc_In. exists l, r, out, rem. auto.
  Qed.

  Theorem translate_spec fuel outs : translate fuel F w = Some outs -> forall o, In o outs <-> Rel F w o.
  Proof.
    unfold translate. fold init. destruct (close_from (tsucc F) fuel init) as [R|] eqn:C; [|discriminate].
    intros E o. inversion E; subst outs. clear E. pose proof (close_sound _ _ _ _ C) as RS.
    rewrite dedup_In, in_flat_map. split.
    - intros [[[rem gen] q] [Hc Ho]]. destruct rem; [|destruct Ho]. destruct (mem q (f_finals F)) eqn:M; [|destruct Ho].
      destruct Ho as [<-|[]]. apply mem_In in M. apply RS, treach_spec in Hc. destruct Hc as [s [u [Hs [Ew Rr]]]].
      rewrite app_nil_r in Ew. subst u. exists s, q. repeat split; auto. now apply frun_rfrun.
    - intros [s [f [Hs [Hf Rn]]]]. exists ([], o, f). split.
      + apply RS, treach_spec. exists s, w. split; [exact Hs|]. split; [now rewrite app_nil_r|now apply frun_rfrun].
      + apply mem_In in Hf. rewrite Hf. now left.
  Qed.
End T.
