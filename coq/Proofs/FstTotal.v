(* FST.translate finishes when epsilon-input moves write nothing: the reachable configurations lie in a finite universe (C16). *)
From Coq Require Import List Bool Arith NArith Lia.
From PFL Require Import Base.Loop Base.ListSet Base.Closure Spec.Fst Model.Fst Proofs.FstTranslate Proofs.Totality.
Import ListNotations.

Section T.
  Context {Q : Type} `{EqDec Q}.
  Variable F : fst Q.
  Variable w : list N.
  Hypothesis Hsilent : forall q r out, In (q, None, r, out) (f_delta F) -> out = [].

  Definition t_states : list Q := f_starts F ++ map (fun t : Q * option N * Q * list N => match t with (_, _, r, _) => r end) (f_delta F).
  Definition t_outs : list (list N) := map (fun t : Q * option N * Q * list N => match t with (_, _, _, o) => o end) (f_delta F).
  Fixpoint seqs (i : nat) : list (list (list N)) :=
    match i with O => [[]] | S j => flat_map (fun os => map (fun o => os ++ [o]) t_outs) (seqs j) end.
  Definition t_univ : list (list N * list N * Q) :=
    flat_map (fun i => flat_map (fun os => map (fun q => (skipn i w, concat os, q)) t_states) (seqs i)) (seq 0 (S (length w))).

  Lemma univ_In i os q : i <= length w -> In os (seqs i) -> In q t_states -> In (skipn i w, concat os, q) t_univ.
  Proof.
    intros Hi Ho Hq. unfold t_univ. apply in_flat_map. exists i. split; [apply in_seq; lia|]. apply in_flat_map. exists os. split; [exact Ho|].
    apply in_map_iff. eauto.
  Qed.
  Lemma skipn_cons i a rest : skipn i w = a :: rest -> i < length w /\ skipn (S i) w = rest.
  Proof.
    revert i. induction w as [|b l IH]; intros i E; [destruct i; discriminate|]. destruct i as [|i].
    - cbn in E. inversion E; subst. split; [cbn; lia|reflexivity].
    - cbn [skipn] in E. destruct (IH i E) as [L E2]. split; [cbn; lia|exact E2].
  Qed.

  Theorem translate_total n : 3 * length t_univ < 2 ^ n -> exists outs, translate n F w = Some outs.
  Proof.
    intros Le. unfold translate.
    destruct (close_from_total (tsucc F) t_univ (map (fun s => (w, @nil N, s)) (f_starts F))) with (n := n) as [r Hr]; [| |exact Le|rewrite Hr; eauto].
    - intros [[rem gen] q] Hc c' Hc'. unfold t_univ in Hc. apply in_flat_map in Hc. destruct Hc as [i [Hi Hc]]. apply in_seq in Hi.
      apply in_flat_map in Hc. destruct Hc as [os [Hos Hc]]. apply in_map_iff in Hc. destruct Hc as [q0 [E Hq0]]. inversion E; subst. clear E.
      apply (tsucc_In F) in Hc'. destruct Hc' as [l [r' [out [rest [Hd [Erem ->]]]]]].
      assert (Hr' : In r' t_states) by (unfold t_states; apply in_or_app; right; apply in_map_iff; exists (q, l, r', out); auto).
      destruct l as [a|]; cbn [ol app] in Erem.
      + destruct (skipn_cons _ _ _ Erem) as [Li <-]. replace (concat os ++ out) with (concat (os ++ [out])) by (rewrite concat_app; cbn; now rewrite app_nil_r).
        apply univ_In; [lia| |exact Hr']. cbn [seqs]. apply in_flat_map. exists os. split; [exact Hos|]. apply in_map_iff. exists out. split; [reflexivity|].
        unfold t_outs. apply in_map_iff. exists (q, Some a, r', out). auto.
      + rewrite (Hsilent _ _ _ Hd), app_nil_r, <- Erem. apply univ_In; [lia|exact Hos|exact Hr'].
    - intros c Hc. apply in_map_iff in Hc. destruct Hc as [s [<- Hs]]. apply (univ_In 0 [] s); [lia|now left|unfold t_states; apply in_or_app; now left].
  Qed.
End T.
