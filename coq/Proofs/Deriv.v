From Coq Require Import List Bool Arith NArith Lia.
From PFL Require Import Base.ListSet Spec.Cfg.
From PFL Require Import Model.Deriv.
Import ListNotations.

Section P.
  Context {Vr : Type}.
  Variable G : cfg Vr.
  Notation form := (list (symb Vr)).

  Inductive lchain : list form -> Prop :=
  | lc_nil : lchain []
  | lc_one f : lchain [f]
  | lc_cons f g l : lstep G f g -> lchain (g :: l) -> lchain (f :: g :: l).

  Lemma lstep_ctx pre post f g : lstep G f g -> lstep G (map T pre ++ f ++ post) (map T pre ++ g ++ post).
  Proof.
    intros S. destruct S as [p A body q Hin].
    replace (map T pre ++ (map T p ++ V A :: q) ++ post) with (map T (pre ++ p) ++ V A :: (q ++ post))
      by (rewrite map_app, <- !app_assoc; reflexivity).
    replace (map T pre ++ (map T p ++ body ++ q) ++ post) with (map T (pre ++ p) ++ body ++ (q ++ post))
      by (rewrite map_app, <- !app_assoc; reflexivity).
    now constructor.
  Qed.

  Lemma lstep_root A body : In (A, body) (g_prods G) -> lstep G [V A] body.
  Proof.
    intros Hin. pose proof (lstep_intro G [] A body [] Hin) as S. simpl in S. now rewrite app_nil_r in S.
  Qed.

  Lemma lchain_ctx pre post l : lchain l -> lchain (map (fun d => map T pre ++ d ++ post) l).
  Proof.
    induction 1 as [|f|f g l S _ IH]; simpl; [constructor|constructor|].
    constructor; [now apply lstep_ctx|exact IH].
  Qed.

  Lemma lchain_app (C L : list form) : C <> [] -> lchain C -> lchain (last C [] :: L) -> lchain (C ++ L).
  Proof.
    intros Hne HC. induction HC as [|f|f g l S HC IH]; intros HL; [congruence|exact HL|].
    simpl. constructor; [exact S|]. apply IH; [discriminate|]. exact HL.
  Qed.

  Lemma last_app_ne (C L : list form) d : C <> [] -> last (C ++ L) d = last (last C d :: L) d.
  Proof.
    induction C as [|x C IH]; intros Hne; [congruence|]. destruct C as [|y C]; [reflexivity|].
    change ((x :: y :: C) ++ L) with (x :: (y :: C) ++ L). change (last (x :: y :: C) d) with (last (y :: C) d).
    rewrite <- IH by discriminate. destruct ((y :: C) ++ L) eqn:E; [discriminate|reflexivity].
  Qed.

  Lemma last_map_ne {X Y} (f : X -> Y) (l : list X) dx dy : l <> [] -> last (map f l) dy = f (last l dx).
  Proof.
    induction l as [|x l IH]; intros Hne; [congruence|]. destruct l as [|y l]; [reflexivity|].
    change (map f (x :: y :: l)) with (f x :: map f (y :: l)). change (last (x :: y :: l) dx) with (last (y :: l) dx).
    rewrite <- IH by discriminate. destruct (map f (y :: l)) eqn:E; [discriminate|reflexivity].
  Qed.

  (* what a correct listing of t is *)
  Definition good (t : tree Vr) (L : list form) : Prop :=
    L <> [] /\ hd [] L = [root t] /\ lchain L /\ last L [] = map T (yield t).

  Lemma go_spec (lmf : tree Vr -> list form) : forall l, Forall (fun t => good t (lmf t)) l ->
    forall pre first, (first = true -> l <> []) ->
    let start := map T pre in
    let lines := lm_go lmf l start first in
    let full := if first then lines else (start ++ map root l) :: lines in
    full <> [] /\ hd [] full = start ++ map root l /\ lchain full /\ last full [] = start ++ map T (flat_map yield l).
  Proof.
    induction l as [|son rest IH]; intros HF pre first Hfirst; cbv zeta.
    - destruct first; [exfalso; now apply Hfirst|]. simpl. rewrite !app_nil_r. repeat split; [discriminate|constructor].
    - inversion HF as [|? ? Hson HFr]; subst. destruct Hson as (Dne & Dhd & Dch & Dlast).
      set (start := map T pre). set (end_ := map root rest). set (ds := lmf son) in *.
      set (ctx := fun d : form => start ++ d ++ end_).
      assert (Eds : exists tl, ds = [root son] :: tl).
      { destruct ds as [|d tl]; [congruence|]. simpl in Dhd. subst d. eauto. }
      destruct Eds as (tl & Eds).
      set (ds' := if first then ds else match ds with (_ :: _) :: tl0 => tl0 | _ => ds end).
      assert (Eds' : ds' = if first then ds else tl).
      { unfold ds'. destruct first; [reflexivity|]. rewrite Eds. reflexivity. }
      set (C := map ctx ds).
      assert (CNE : C <> []) by (unfold C; rewrite Eds; discriminate).
      assert (Chd : hd [] C = start ++ map root (son :: rest)).
      { unfold C. rewrite Eds. reflexivity. }
      assert (Cch : lchain C) by (apply lchain_ctx; exact Dch).
      assert (Clast : last C [] = start ++ map T (yield son) ++ end_).
      { unfold C. rewrite (last_map_ne ctx ds [] []) by exact Dne. unfold ctx. now rewrite Dlast. }
      set (start' := match ds' with [] => start ++ [root son] | _ => start ++ last ds' [] end).
      assert (Es' : start' = map T (pre ++ yield son)).
      { unfold start'. rewrite map_app. fold start. rewrite Eds'. destruct first.
        - destruct ds as [|d0 ds0] eqn:E0; [congruence|]. now rewrite Dlast.
        - destruct tl as [|d1 tl1].
          + rewrite Eds in Dlast. simpl in Dlast. now rewrite Dlast.
          + rewrite Eds in Dlast. change (last ([root son] :: d1 :: tl1) []) with (last (d1 :: tl1) []) in Dlast. now rewrite Dlast. }
      assert (Hrest := IH HFr (pre ++ yield son) false (fun E => ltac:(discriminate))). cbv zeta in Hrest.
      destruct Hrest as (_ & Rhd & Rch & Rlast).
      assert (Efull : (if first then lm_go lmf (son :: rest) start first else (start ++ map root (son :: rest)) :: lm_go lmf (son :: rest) start first)
                      = C ++ lm_go lmf rest start' false).
      { cbn [lm_go]. fold end_ ds. fold ds'. fold start'. fold ctx. rewrite Eds'. destruct first; [reflexivity|].
        unfold C. rewrite Eds. reflexivity. }
      rewrite Efull. rewrite Es' in *.
      assert (Elink : last C [] = map T (pre ++ yield son) ++ map root rest).
      { rewrite Clast, map_app. fold start. unfold end_. now rewrite app_assoc. }
      split; [destruct C; [congruence|discriminate]|]. split; [destruct C; [congruence|exact Chd]|]. split.
      + apply lchain_app; [exact CNE|exact Cch|]. rewrite Elink. exact Rch.
      + rewrite (last_app_ne C _ []) by exact CNE. rewrite Elink, Rlast. simpl flat_map. rewrite !map_app. fold start. now rewrite app_assoc.
  Qed.

  Lemma tdepth_son (s : symb Vr) (sons : list (tree Vr)) (t : tree Vr) : In t sons -> tdepth t < tdepth (Node s sons).
  Proof.
    intros Hin. simpl. apply Nat.lt_succ_r. induction sons as [|x sons IH]; [destruct Hin|]. simpl.
    destruct Hin as [->|Hin]; [lia|]. specialize (IH Hin). lia.
  Qed.

  Lemma lm_fuel_good : forall n t, valid_tree G t -> tdepth t <= n -> good t (lm_fuel n t).
  Proof.
    induction n as [|k IH]; intros t Hv Hd; [destruct t; simpl in Hd; lia|].
    destruct Hv as [a|A sons Hin HF].
    - simpl. repeat split; [discriminate|constructor].
    - destruct sons as [|s0 sons0].
      + simpl. repeat split; [discriminate|]. constructor; [|constructor]. apply lstep_root. exact Hin.
      + set (sons := s0 :: sons0) in *.
        assert (HFg : Forall (fun t => good t (lm_fuel k t)) sons).
        { rewrite Forall_forall in *. intros t Ht. apply IH; [now apply HF|]. pose proof (tdepth_son (V A) sons t Ht). lia. }
        pose proof (go_spec (lm_fuel k) sons HFg [] true (fun _ => ltac:(discriminate))) as Hg. cbv zeta in Hg. simpl map in Hg.
        change (lm_fuel (S k) (Node (V A) sons)) with ([V A] :: lm_go (lm_fuel k) sons [] true).
        destruct Hg as (Lne & Lhd & Lch & Llast). simpl app in *.
        destruct (lm_go (lm_fuel k) sons [] true) as [|l0 ls] eqn:EL; [congruence|]. simpl in Lhd. subst l0.
        repeat split; [discriminate| |].
        * constructor; [|exact Lch]. apply lstep_root. exact Hin.
        * etransitivity; [|exact Llast]. reflexivity.
  Qed.

  Theorem lm_spec t : valid_tree G t -> good t (lm t).
  Proof. intros Hv. apply lm_fuel_good; [exact Hv|apply Nat.le_refl]. Qed.

  (* ---- rightmost ---- *)
  Inductive rchain : list form -> Prop :=
  | rc_nil : rchain []
  | rc_one f : rchain [f]
  | rc_cons f g l : rstep G f g -> rchain (g :: l) -> rchain (f :: g :: l).

  Lemma rstep_ctx pre post f g : rstep G f g -> rstep G (pre ++ f ++ map T post) (pre ++ g ++ map T post).
  Proof.
    intros S. destruct S as [p A body q Hin].
    replace (pre ++ (p ++ V A :: map T q) ++ map T post) with ((pre ++ p) ++ V A :: map T (q ++ post))
      by (rewrite map_app, <- !app_assoc; reflexivity).
    replace (pre ++ (p ++ body ++ map T q) ++ map T post) with ((pre ++ p) ++ body ++ map T (q ++ post))
      by (rewrite map_app, <- !app_assoc; reflexivity).
    now constructor.
  Qed.
  Lemma rstep_root A body : In (A, body) (g_prods G) -> rstep G [V A] body.
  Proof.
    intros Hin. pose proof (rstep_intro G [] A body [] Hin) as S. simpl in S. now rewrite app_nil_r in S.
  Qed.
  Lemma rchain_ctx pre post l : rchain l -> rchain (map (fun d => pre ++ d ++ map T post) l).
  Proof.
    induction 1 as [|f|f g l S _ IH]; simpl; [constructor|constructor|].
    constructor; [now apply rstep_ctx|exact IH].
  Qed.
  Lemma rchain_app (C L : list form) : C <> [] -> rchain C -> rchain (last C [] :: L) -> rchain (C ++ L).
  Proof.
    intros Hne HC. induction HC as [|f|f g l S HC IH]; intros HL; [congruence|exact HL|].
    simpl. constructor; [exact S|]. apply IH; [discriminate|]. exact HL.
  Qed.

  Definition rgood (t : tree Vr) (L : list form) : Prop :=
    L <> [] /\ hd [] L = [root t] /\ rchain L /\ last L [] = map T (yield t).

  Lemma rgo_spec (rmf : tree Vr -> list form) : forall l, Forall (fun t => rgood t (rmf t)) l ->
    forall post first, (first = true -> l <> []) ->
    let end_ := map T post in
    let lines := rm_go rmf l end_ first in
    let full := if first then lines else (map root (rev l) ++ end_) :: lines in
    full <> [] /\ hd [] full = map root (rev l) ++ end_ /\ rchain full /\ last full [] = map T (flat_map yield (rev l)) ++ end_.
  Proof.
    induction l as [|son rest IH]; intros HF post first Hfirst; cbv zeta.
    - destruct first; [exfalso; now apply Hfirst|]. simpl. repeat split; [discriminate|constructor].
    - inversion HF as [|? ? Hson HFr]; subst. destruct Hson as (Dne & Dhd & Dch & Dlast).
      set (end_ := map T post). set (start := map root (rev rest)). set (ds := rmf son) in *.
      set (ctx := fun d : form => start ++ d ++ end_).
      assert (Eds : exists tl, ds = [root son] :: tl).
      { destruct ds as [|d tl]; [congruence|]. simpl in Dhd. subst d. eauto. }
      destruct Eds as (tl & Eds).
      set (ds' := if first then ds else match ds with (_ :: _) :: tl0 => tl0 | _ => ds end).
      assert (Eds' : ds' = if first then ds else tl).
      { unfold ds'. destruct first; [reflexivity|]. rewrite Eds. reflexivity. }
      set (C := map ctx ds).
      assert (CNE : C <> []) by (unfold C; rewrite Eds; discriminate).
      assert (Ecur : map root (rev (son :: rest)) ++ end_ = start ++ [root son] ++ end_).
      { simpl rev. rewrite map_app. fold start. simpl. now rewrite <- app_assoc. }
      assert (Chd : hd [] C = map root (rev (son :: rest)) ++ end_).
      { unfold C. rewrite Eds, Ecur. reflexivity. }
      assert (Cch : rchain C) by (apply rchain_ctx; exact Dch).
      assert (Clast : last C [] = start ++ map T (yield son) ++ end_).
      { unfold C. rewrite (last_map_ne ctx ds [] []) by exact Dne. unfold ctx. now rewrite Dlast. }
      set (end' := match ds' with [] => root son :: end_ | _ => last ds' [] ++ end_ end).
      assert (Ee' : end' = map T (yield son ++ post)).
      { unfold end'. rewrite map_app. fold end_. rewrite Eds'. destruct first.
        - destruct ds as [|d0 ds0] eqn:E0; [congruence|]. now rewrite Dlast.
        - destruct tl as [|d1 tl1].
          + rewrite Eds in Dlast. simpl in Dlast. now rewrite <- Dlast.
          + rewrite Eds in Dlast. change (last ([root son] :: d1 :: tl1) []) with (last (d1 :: tl1) []) in Dlast. now rewrite Dlast. }
      assert (Hrest := IH HFr (yield son ++ post) false (fun E => ltac:(discriminate))). cbv zeta in Hrest.
      destruct Hrest as (_ & Rhd & Rch & Rlast).
      assert (Efull : (if first then rm_go rmf (son :: rest) end_ first else (map root (rev (son :: rest)) ++ end_) :: rm_go rmf (son :: rest) end_ first)
                      = C ++ rm_go rmf rest end' false).
      { cbn [rm_go]. fold start ds. fold ds'. fold end'. fold ctx. rewrite Eds'. destruct first; [reflexivity|].
        unfold C. rewrite Eds, Ecur. reflexivity. }
      rewrite Efull. rewrite Ee' in *.
      assert (Elink : last C [] = map root (rev rest) ++ map T (yield son ++ post)).
      { rewrite Clast, map_app. reflexivity. }
      split; [destruct C; [congruence|discriminate]|]. split; [destruct C; [congruence|exact Chd]|]. split.
      + apply rchain_app; [exact CNE|exact Cch|]. rewrite Elink. exact Rch.
      + rewrite (last_app_ne C _ []) by exact CNE. rewrite Elink, Rlast. simpl rev. rewrite flat_map_app. simpl flat_map.
        rewrite app_nil_r, !map_app. fold end_. now rewrite <- app_assoc.
  Qed.

  Lemma rm_fuel_good : forall n t, valid_tree G t -> tdepth t <= n -> rgood t (rm_fuel n t).
  Proof.
    induction n as [|k IH]; intros t Hv Hd; [destruct t; simpl in Hd; lia|].
    destruct Hv as [a|A sons Hin HF].
    - simpl. repeat split; [discriminate|constructor].
    - destruct sons as [|s0 sons0].
      + simpl. repeat split; [discriminate|]. constructor; [|constructor]. apply rstep_root. exact Hin.
      + set (sons := s0 :: sons0) in *.
        assert (HFg : Forall (fun t => rgood t (rm_fuel k t)) (rev sons)).
        { rewrite Forall_forall in *. intros t Ht. apply in_rev in Ht. apply IH; [now apply HF|]. pose proof (tdepth_son (V A) sons t Ht). lia. }
        assert (Hne : rev sons <> []) by (intros E; apply (f_equal (@length _)) in E; rewrite rev_length in E; discriminate).
        pose proof (rgo_spec (rm_fuel k) (rev sons) HFg [] true (fun _ => Hne)) as Hg. cbv zeta in Hg.
        rewrite rev_involutive in Hg. change (map (@T Vr) []) with (@nil (symb Vr)) in Hg. rewrite !app_nil_r in Hg.
        change (rm_fuel (S k) (Node (V A) sons)) with ([V A] :: rm_go (rm_fuel k) (rev sons) [] true).
        destruct Hg as (Lne & Lhd & Lch & Llast).
        destruct (rm_go (rm_fuel k) (rev sons) [] true) as [|l0 ls] eqn:EL; [congruence|]. simpl in Lhd. subst l0.
        repeat split; [discriminate| |].
        * constructor; [|exact Lch]. apply rstep_root. exact Hin.
        * etransitivity; [|exact Llast]. reflexivity.
  Qed.

  Theorem rm_spec t : valid_tree G t -> rgood t (rm t).
  Proof. intros Hv. apply rm_fuel_good; [exact Hv|apply Nat.le_refl]. Qed.
End P.
