(* Lemmas about the definitions regenerated from /repo's source by tools/pygen.py (coq/Gen/*.v): re-checked at every build.
   One file per property so that a change of one constant only breaks the obligations that depend on it. *)
From Coq Require Import List Bool NArith.
From PFL Require Import Base.ListSet Spec.Cfg Model.Cfg Gen.PyConst Gen.PyFun.
Import ListNotations.

(* the epsilon spellings dropped by from_text contain "epsilon" and "$"; the renaming suffix of substitute is "#SUBS#" *)
Lemma cfg_text_constants :
  In [101%N; 112%N; 115%N; 105%N; 108%N; 111%N; 110%N] cfg_EPSILON_SYMBOLS /\ In [36%N] cfg_EPSILON_SYMBOLS /\
  cfg_SUBS_SUFFIX = [35%N; 83%N; 85%N; 66%N; 83%N; 35%N].
Proof. cbn. tauto. Qed.

(* the separators PDA/FST.to_networkx write into an edge label and the ones from_networkx splits on, regenerated from
   pda/pda.py and fst/fst.py on every build, are the separators of Model.GraphLabels, in the same order *)
From PFL Require Import Model.GraphLabels.
Lemma label_separators_from_source :
  pda_label_written = [sep_arrow; sep_slash] /\ pda_label_splits = [sep_arrow; sep_slash] /\
  fst_label_written = [sep_arrow] /\ fst_label_splits = [sep_arrow].
Proof. repeat split; reflexivity. Qed.
