(* to_normal_form: language preservation (non-empty words), Chomsky shape of the result, and contains = derivability (C08, C09). *)
From Coq Require Import List Bool Arith NArith Lia.
From PFL Require Import Base.ListSet Spec.Cfg Model.Cfg Proofs.CfgSymbols Proofs.CfgOps Proofs.CfgCyk Proofs.CfgUseless Proofs.CfgUnit
  Proofs.CfgEpsilon Proofs.CfgLift Proofs.CfgDecompose.
Import ListNotations.

Lemma no_prods_no_lang {X : Type} (G : cfg X) w : g_prods G = [] -> ~ LangG G w.
Proof. unfold LangG. intros E D. destruct (g_start G); [|exact D]. inversion D as [|? ? ? Hp _]; subst. rewrite E in Hp. exact Hp. Qed.

Section NFP.
  Context {Vr : Type} `{EqDec Vr}.

  (* CFG.__init__ registers heads and body variables *)
  Lemma mkcfg_heads vars terms start prods A body :
    In (A, body) (g_prods (mkcfg vars terms start prods : cfg Vr)) -> In A (g_vars (mkcfg vars terms start prods)).
  Proof.
    cbn [mkcfg g_prods g_vars]. intros Hp. apply dedup_In. apply in_or_app. right. apply in_or_app. right. apply in_or_app. left.
    apply in_map_iff. exists (A, body). split; [reflexivity|exact Hp].
  Qed.
  Lemma mkcfg_bodies vars terms start prods A body B :
    In (A, body) (g_prods (mkcfg vars terms start prods : cfg Vr)) -> In (V B) body -> In B (g_vars (mkcfg vars terms start prods)).
  Proof.
    cbn [mkcfg g_prods g_vars]. intros Hp HB. apply dedup_In. apply in_or_app. right. apply in_or_app. right. apply in_or_app. right.
    apply in_flat_map. exists (A, body). split; [exact Hp|]. cbn [snd]. unfold body_vars. apply in_flat_map. exists (V B). split; [exact HB|now left].
  Qed.

  (* the five-stage clean-up keeps exactly the non-empty words *)
  Theorem cleanup_lang (G : cfg Vr) w : LangG (cleanup G) w <-> (LangG G w /\ w <> []).
  Proof.
    unfold cleanup. rewrite remove_useless_lang.
    rewrite eliminate_unit_lang; [| intros A body; apply mkcfg_heads | intros A body B; apply mkcfg_bodies].
    rewrite remove_useless_lang, remove_epsilon_lang, remove_useless_lang. reflexivity.
  Qed.

  Lemma single_terminals_nocc (G : cfg Vr) : Forall nocc_prod (single_terminals G).
  Proof.
    apply Forall_forall. intros [h b] Hp. unfold single_terminals in Hp. apply in_app_or in Hp. destruct Hp as [Hp|Hp].
    - apply in_map_iff in Hp. destruct Hp as [[A body] [E Hp]]. inversion E; subst. split; [exact I|]. cbn [snd].
      apply Forall_forall. intros X HX. unfold lift_body in HX.
      destruct body as [|Y [|Z r]]; try (apply in_map_iff in HX; destruct HX as [[B|a] [<- _]]; exact I). 
    - apply in_map_iff in Hp. destruct Hp as [a [E _]]. inversion E; subst. split; [exact I|]. cbn [snd]. repeat constructor.
  Qed.

  (* the fast path: lifting terminals then binarising *)
  Lemma fast_lang (G : cfg Vr) w :
    LangG (mkcfg [] [] (option_map CV (g_start G)) (decompose (single_terminals G))) w <-> LangG G w.
  Proof.
    unfold LangG. rewrite mkcfg_start. destruct (g_start G) as [s|]; cbn [option_map]; [|tauto].
    pose proof (decompose_lang [] [] (Some (CV s)) (single_terminals G) (single_terminals_nocc G) (V (CV s)) w I) as DL.
    pose proof (lift_lang G s w) as LL.
    assert (S1 : forall G1 G2 : cfg (cvar Vr), g_prods G1 = g_prods G2 -> derives G1 (V (CV s)) w <-> derives G2 (V (CV s)) w).
    { intros G1 G2 E. split; intros D; [apply (proj1 (derives_same_prods G1 G2 E) _ _ D)|apply (proj1 (derives_same_prods G2 G1 (eq_sym E)) _ _ D)]. }
    etransitivity; [apply (S1 _ (Gd [] [] (Some (CV s)) (single_terminals G))); apply mkcfg_prods|].
    etransitivity; [exact DL|]. etransitivity; [apply (S1 _ (Gl G)); reflexivity|exact LL].
  Qed.

  Theorem to_normal_form_lang fuel : forall (G : cfg Vr) C w, to_normal_form fuel G = Some C -> w <> [] -> (LangG C w <-> LangG G w).
  Proof.
    induction fuel as [|f IH]; intros G C w E Hw; cbn [to_normal_form] in E; destruct (fast_path_ok G) eqn:F.
    - inversion E; subst. apply fast_lang.
    - destruct (g_prods G) as [|p r] eqn:Ep; [|discriminate]. inversion E; subst.
      assert (E1 : g_prods (lift_cfg G) = []) by (cbn [lift_cfg g_prods]; now rewrite Ep).
      split; intros D; exfalso; [exact (no_prods_no_lang _ w E1 D)|exact (no_prods_no_lang _ w Ep D)].
    - inversion E; subst. apply fast_lang.
    - destruct (g_prods G) as [|p r] eqn:Ep.
      + inversion E; subst. assert (E1 : g_prods (lift_cfg G) = []) by (cbn [lift_cfg g_prods]; now rewrite Ep).
      split; intros D; exfalso; [exact (no_prods_no_lang _ w E1 D)|exact (no_prods_no_lang _ w Ep D)].
      + rewrite (IH _ _ w E Hw). rewrite cleanup_lang. tauto.
  Qed.

  (* ---- shape ---- *)
  Lemma fast_path_facts (G : cfg Vr) : fast_path_ok G = true ->
    forall A body, In (A, body) (g_prods G) -> body <> [] /\ is_unit (A, body) = false.
  Proof.
    unfold fast_path_ok. rewrite !andb_true_iff. intros [[[Hn Hu] _] _] A body Hp. split.
    - intros ->. assert (N1 : In A (nullable_vars G)) by (apply nullable_vars_spec; apply dv_var with []; [exact Hp|apply dl_nil]).
      destruct (nullable_vars G); [exact N1|discriminate].
    - apply negb_true_iff in Hu. destruct (is_unit (A, body)) eqn:U; [|reflexivity].
      assert (X : existsb is_unit (g_prods G) = true) by (apply existsb_exists; eauto). congruence.
  Qed.

  Definition all_vars (b : list (symb (cvar Vr))) : Prop := forall X, In X b -> exists v, X = V v.

  Lemma single_terminals_shape (G : cfg Vr) : fast_path_ok G = true ->
    forall h b, In (h, b) (single_terminals G) -> (exists a, b = [T a]) \/ (2 <= length b /\ all_vars b).
  Proof.
    intros F h b Hp. unfold single_terminals in Hp. apply in_app_or in Hp. destruct Hp as [Hp|Hp].
    - apply in_map_iff in Hp. destruct Hp as [[A body] [E Hp]]. inversion E; subst. cbn [snd].
      destruct (fast_path_facts G F A body Hp) as [Ne Nu]. unfold is_unit in Nu. cbn [snd] in Nu.
      destruct body as [|X [|Y r]]; [congruence| |].
      + destruct X as [B|a]; [discriminate|]. left. exists a. reflexivity.
      + right. split; [cbn; lia|]. intros Z HZ. unfold lift_body in HZ. apply in_map_iff in HZ. destruct HZ as [[B|a] [<- _]]; eauto.
    - apply in_map_iff in Hp. destruct Hp as [a [E _]]. inversion E; subst. left. eauto.
  Qed.

  Lemma fast_nf (G : cfg Vr) : fast_path_ok G = true ->
    is_normal_form (mkcfg [] [] (option_map CV (g_start G)) (decompose (single_terminals G))) = true.
  Proof.
    intros F. unfold is_normal_form. rewrite mkcfg_prods. apply forallb_forall. intros [h b] Hp.
    pose proof (single_terminals_shape G F) as Sh.
    assert (OK : forall X, okS (single_terminals G) X -> exists v, X = V v).
    { intros X [[k ->]|[h' [body' [Hp' [Gt HX]]]]]; [eauto|]. destruct (Sh _ _ Hp') as [[a ->]|[_ AV]]; [cbn in Gt; lia|now apply AV]. }
    destruct (decompose_shape (single_terminals G) (single_terminals_nocc G) h b Hp) as [[Hp0 Le]|[X [Y [-> [OX OY]]]]].
    - destruct (Sh _ _ Hp0) as [[a ->]|[Ge AV]]; [reflexivity|]. destruct b as [|X [|Y [|Z r]]]; cbn in Le, Ge; try lia.
      destruct (AV X (or_introl eq_refl)) as [x ->]. destruct (AV Y (or_intror (or_introl eq_refl))) as [y ->]. reflexivity.
    - destruct (OK _ OX) as [x ->]. destruct (OK _ OY) as [y ->]. reflexivity.
  Qed.

  Theorem to_normal_form_nf fuel : forall (G : cfg Vr) C, to_normal_form fuel G = Some C -> is_normal_form C = true.
  Proof.
    induction fuel as [|f IH]; intros G C E; cbn [to_normal_form] in E; destruct (fast_path_ok G) eqn:F.
    - inversion E; subst. now apply fast_nf.
    - destruct (g_prods G) as [|p r] eqn:Ep; [|discriminate]. inversion E; subst. unfold is_normal_form, lift_cfg. cbn [g_prods]. now rewrite Ep.
    - inversion E; subst. now apply fast_nf.
    - destruct (g_prods G) as [|p r] eqn:Ep; [|now apply IH with (cleanup G)].
      inversion E; subst. unfold is_normal_form, lift_cfg. cbn [g_prods]. now rewrite Ep.
  Qed.

  (* CFG.contains on the model = derivability, for every grammar and word on which the model's recursion finishes *)
  Theorem contains_spec fuel (G : cfg Vr) w b : contains fuel G w = Some b -> (b = true <-> LangG G w).
  Proof.
    unfold contains. destruct w as [|a w'].
    - intros E. inversion E; subst. apply generate_epsilon_spec.
    - destruct (to_normal_form fuel G) as [C|] eqn:E; [|discriminate]. cbn [option_map]. intros E'. inversion E'; subst.
      rewrite (cyk_spec C (to_normal_form_nf fuel G C E) (a :: w')); [|discriminate].
      apply (to_normal_form_lang fuel G C (a :: w') E). discriminate.
  Qed.
End NFP.
