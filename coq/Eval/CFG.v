(* helpers for the generated CFG case files *)
From Coq Require Export List Bool Arith NArith.
From PFL Require Export Base.ListSet Spec.Cfg Model.Cfg Oracle.CfgMember.
Export ListNotations.
#[global] Open Scope N_scope.

Definition NFFUEL : nat := 6%nat.

From PFL Require Export Model.CfgWords.
Definition all_words (syms : list N) (k : nat) : list (list N) := dedup (words_upto syms k).

(* first word on which the two grammars disagree (the empty word is expected to be dropped when [drop_eps]) *)
Definition lang_diff {V1 V2} `{EqDec V1} `{EqDec V2} (G : cfg V1) (H : cfg V2) (ws : list (list N)) (drop_eps : bool) : option (list N) :=
  find (fun w => match w with
                 | [] => if drop_eps then cfg_member H w else negb (Bool.eqb (cfg_member G w) (cfg_member H w))
                 | _ => negb (Bool.eqb (cfg_member G w) (cfg_member H w))
                 end) ws.

Section Shapes.
  Context {Vr : Type} `{EqDec Vr}.
  Definition is_start (G : cfg Vr) (A : Vr) : bool := match g_start G with Some s => eqb s A | None => false end.
  Definition only_useful (G : cfg Vr) : bool :=
    let gen := generating_vars G in
    let reach := reachable_symbols G in
    forallb (fun p => mem (fst p) gen && mem (V (fst p)) reach &&
                      forallb (fun X => mem X reach && match X with V B => mem B gen | T _ => true end) (snd p)) (g_prods G) &&
    forallb (fun A => is_start G A || (mem A gen && mem (V A) reach)) (g_vars G) &&
    forallb (fun a => mem (T a) reach) (g_terms G).
  Definition no_eps_prods (G : cfg Vr) : bool := forallb (fun p => match snd p with [] => false | _ => true end) (g_prods G).
  Definition no_unit_prods (G : cfg Vr) : bool := forallb (fun p => negb (is_unit p)) (g_prods G).
  Definition same_prods (G H : cfg Vr) : bool := eqset (g_prods G) (g_prods H).
End Shapes.

(* ---- C10: semantic references for the grammar operations, on words ---- *)
From PFL Require Export Model.CfgOps.
Definition all_splits (w : list N) : list (list N * list N) :=
  map (fun i => (firstn i w, skipn i w)) (seq 0 (S (length w))).
Definition concat_ref (m1 m2 : list N -> bool) (w : list N) : bool :=
  existsb (fun uv => m1 (fst uv) &&& m2 (snd uv)) (all_splits w).
Fixpoint star_ref (fuel : nat) (m : list N -> bool) (w : list N) : bool :=
  match w with
  | [] => true
  | _ => match fuel with
         | O => false
         | S f => existsb (fun uv => match fst uv with [] => false | _ => m (fst uv) &&& star_ref f m (snd uv) end) (all_splits w)
         end
  end.
Definition plus_ref (m : list N -> bool) (w : list N) : bool :=
  concat_ref m (star_ref (length w) m) w.

(* first word on which [m] (a grammar's membership) differs from the reference predicate *)
Definition pred_diff {V1} `{EqDec V1} (H : cfg V1) (ref : list N -> bool) (ws : list (list N)) : option (list N) :=
  find (fun w => negb (Bool.eqb (cfg_member H w) (ref w))) ws.

(* ---- C14 / C15 ---- *)
From PFL Require Export Oracle.CfgTree Model.LL1.
Definition tree_judge {Vr} `{EqDec Vr} (G : cfg Vr) (t : tree Vr) (w : list N) : bool * bool * bool :=
  (tree_ok G t, eqb (yield t) w, match g_start G with Some s => eqb (root t) (V s) | None => false end).
Definition first_of {Vr} `{EqDec Vr} (G : cfg Vr) (A : Vr) : list (option N) :=
  map snd (filter (fun p => eqb A (fst p)) (first_set G)).
(* the whole table at once (the sets are computed once) *)
Definition first_follow_table {Vr} `{EqDec Vr} (G : cfg Vr) (vs : list Vr) : list (Vr * list (option N) * list (option N)) :=
  let fs := first_set G in
  let fw := follow_set G in
  map (fun A => (A, map snd (filter (fun p => eqb A (fst p)) fs), map snd (filter (fun p => eqb A (fst p)) fw))) vs.
Definition follow_of {Vr} `{EqDec Vr} (G : cfg Vr) (A : Vr) : list (option N) :=
  map snd (filter (fun p => eqb A (fst p)) (follow_set G)).

(* ---- C11 / C13: pushdown automata ---- *)
From PFL Require Export Spec.Pda Model.Pda Oracle.PdaAccept Spec.Enfa Model.Enfa.
Definition first_diff (f g : list N -> bool) (ws : list (list N)) : option (list N) :=
  find (fun w => negb (Bool.eqb (f w) (g w))) ws.

(* ---- C11: the mirrored intersections (determinise, then Bar-Hillel / product); [Some [999999]] = out of fuel ---- *)
From PFL Require Export Model.EnfaOps Model.CfgInter.
Definition IFUEL : nat := 12%nat.
Definition cfg_inter_model_diff {Vr} `{EqDec Vr} (G : cfg Vr) (A : enfa N) (ref : list N -> bool) (ws : list (list N)) : option (list N) :=
  match determinize true A IFUEL with
  | Some D => match cfg_inter NFFUEL G D with
              | Some R => first_diff ref (cfg_member R) ws
              | None => Some [999999]
              end
  | None => Some [999999]
  end.
Definition pda_inter_model_diff {Q G} `{EqDec Q} `{EqDec G} (P : pda Q G) (A : enfa N) (ref : list N -> bool) (ws : list (list N)) : option (list N) :=
  if is_deterministic A
  then match pda_inter P A IFUEL with Some R => first_diff ref (pda_accepts_final R) ws | None => Some [999999] end
  else match determinize true A IFUEL with
       | Some D => match pda_inter P D IFUEL with Some R => first_diff ref (pda_accepts_final R) ws | None => Some [999999] end
       | None => Some [999999]
       end.

(* ---- C18 ---- *)
From PFL Require Export Model.Feat.

(* ---- C15: the proved models of the derivation listings against the listings pyformlang returns ---- *)
From PFL Require Export Model.Deriv.
Definition listings_same {Vr} `{EqDec Vr} (t : tree Vr) (l r : list (list (symb Vr))) : bool * bool :=
  (eqb (lm t) l, eqb (rm t) r).
