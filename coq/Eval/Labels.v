(* what the generated label cases of C20 import *)
From Coq Require Export List Bool NArith.
From PFL Require Export Model.GraphLabels.
Export ListNotations.
#[global] Open Scope N_scope.

Fixpoint str_eqb (x y : str) : bool :=
  match x, y with
  | [], [] => true
  | a :: x', b :: y' => if N.eqb a b then str_eqb x' y' else false
  | _, _ => false
  end.

(* (the label pyformlang wrote is the model's label, the premises of C20_pda_label_roundtrip hold,
    what the model reads back: 0 = refused (ValueError), 1 = exactly the three fields, 2 = three other texts) *)
(* the premises of C20_pda_label_roundtrip_fields / C20_fst_label_roundtrip_fields, as booleans *)
Definition memb (c : N) (s : str) : bool := existsb (N.eqb c) s.
Definition sep_chars : str := [32; 45; 62; 47].
Definition last_ok (x : str) : bool := match rev x with e :: _ => negb (memb e sep_chars) | [] => false end.
Definition head_ok (x : str) : bool := match x with f :: _ => negb (memb f sep_chars) | [] => true end.
Definition pda_fields_ok (a b c : str) : bool :=
  last_ok a && last_ok b && head_ok b && head_ok c &&
  Nat.eqb (occ sep_arrow a) 0 && Nat.eqb (occ sep_arrow b) 0 && Nat.eqb (occ sep_arrow c) 0 &&
  Nat.eqb (occ sep_slash b) 0 && Nat.eqb (occ sep_slash c) 0.
Definition fst_fields_ok (a b : str) : bool :=
  last_ok a && head_ok b && Nat.eqb (occ sep_arrow a) 0 && Nat.eqb (occ sep_arrow b) 0.

Definition pda_label_judge (a b c l : str) : bool * bool * N * bool :=
  (str_eqb (pda_label a b c) l,
   Nat.eqb (occ sep_arrow l) 1 && Nat.eqb (occ sep_slash (b ++ sep_slash ++ c)) 1,
   match read_pda_label l with
   | None => 0
   | Some (x, y, z) => if str_eqb x a && str_eqb y b && str_eqb z c then 1 else 2
   end,
   pda_fields_ok a b c).

Definition fst_label_judge (a b l : str) : bool * bool * N * bool :=
  (str_eqb (fst_label a b) l,
   Nat.eqb (occ sep_arrow l) 1,
   match read_fst_label l with
   | None => 0
   | Some (x, y) => if str_eqb x a && str_eqb y b then 1 else 2
   end,
   fst_fields_ok a b).
