From Coq Require Export List Bool NArith.
From PFL Require Export Base.ListSet Spec.Ig Model.Ig.
Export ListNotations.
#[global] Open Scope N_scope.

(* ---- C17: the proved model of remove_useless_rules against the rules pyformlang keeps ---- *)
From PFL Require Export Model.IgUseless.
Definition irule_eqb (r1 r2 : irule) : bool :=
  match r1, r2 with
  | REnd A a, REnd A' a' => N.eqb A A' && match a, a' with Some x, Some y => N.eqb x y | None, None => true | _, _ => false end
  | RProd A B f, RProd A' B' f' => N.eqb A A' && N.eqb B B' && N.eqb f f'
  | RCons f A B, RCons f' A' B' => N.eqb f f' && N.eqb A A' && N.eqb B B'
  | RDup A B C, RDup A' B' C' => N.eqb A A' && N.eqb B B' && N.eqb C C'
  | _, _ => false
  end.
Definition ig_same_rules (l1 l2 : list irule) : bool :=
  forallb (fun r => existsb (irule_eqb r) l2) l1 && forallb (fun r => existsb (irule_eqb r) l1) l2.
