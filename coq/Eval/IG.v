From Coq Require Export List Bool NArith.
From PFL Require Export Base.ListSet Spec.Ig Model.Ig.
Export ListNotations.
#[global] Open Scope N_scope.
