(* what the generated case files import *)
From Coq Require Export List Bool NArith.
From PFL Require Export Base.ListSet Spec.Enfa Model.Enfa Model.EnfaOps Model.EnfaWords Proofs.EnfaShapes
  Oracle.EnfaEquiv Oracle.EnfaMinimal.
Export ListNotations.
#[global] Open Scope N_scope.

Definition FUEL : nat := 40%nat.

Inductive verdict := VEq | VDiff (w : option (list N)) | VFuel.

Definition judge {Q1 Q2} `{EqDec Q1} `{EqDec Q2} `{Canon Q1} `{Canon Q2} (X : enfa Q1) (R : enfa Q2) : verdict :=
  match enfa_equiv X R FUEL with
  | Some true => VEq
  | Some false => VDiff (diff_word X R 4000%nat)
  | None => VFuel
  end.
Definition judge_opt {Q1 Q2} `{EqDec Q1} `{EqDec Q2} `{Canon Q1} `{Canon Q2} (X : option (enfa Q1)) (R : enfa Q2) : verdict :=
  match X with Some X' => judge X' R | None => VFuel end.

Definition with_syms {Q} (A : enfa Q) (s : list N) : enfa Q :=
  mkE (e_states A) s (e_delta A) (e_starts A) (e_finals A).

(* reference constructions built from the proved operations *)
Definition ref_complement (A : enfa N) := option_map complement (determinize true A FUEL).
Definition ref_intersection (A B : enfa N) := intersection A B FUEL.
Definition ref_difference (A B : enfa N) :=
  match ref_complement (with_syms B (union (e_syms B) (e_syms A))) with
  | Some C => intersection A C FUEL
  | None => None
  end.
