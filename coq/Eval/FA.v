(* what the generated case files import *)
From Coq Require Export List Bool NArith.
From PFL Require Export Base.ListSet Spec.Enfa Spec.Regex Model.Enfa Model.EnfaOps Model.EnfaWords Model.RegexFA Model.Renumber Proofs.EnfaShapes
  Oracle.EnfaEquiv Oracle.EnfaMinimal Oracle.ReMatch.
Export ListNotations.
#[global] Open Scope N_scope.

Definition FUEL : nat := 40%nat.

Inductive verdict := VEq | VEqBounded (k : nat) | VDiff (w : option (list N)) | VFuel.

Definition judge {Q1 Q2} `{EqDec Q1} `{EqDec Q2} `{Canon Q1} `{Canon Q2} (X : enfa Q1) (R : enfa Q2) : verdict :=
  match enfa_equiv X R FUEL with
  | Some true => VEq
  | Some false => VDiff (diff_word X R 4000%nat)
  | None => VFuel
  end.
Definition judge_opt {Q1 Q2} `{EqDec Q1} `{EqDec Q2} `{Canon Q1} `{Canon Q2} (X : option (enfa Q1)) (R : enfa Q2) : verdict :=
  match X with Some X' => judge X' R | None => VFuel end.


(* reference constructions built from the proved operations *)
Definition ref_complement (A : enfa N) := option_map complement (determinize true A FUEL).
Definition ref_intersection (A B : enfa N) := intersection A B FUEL.
Definition ref_difference (A B : enfa N) := difference_fa A B FUEL FUEL.

(* regular expressions returned by the implementation: exact comparison through the proved automaton
   construction when the expression is small, otherwise agreement of the certified matcher with the certified
   accepts on every word up to length k over the automaton's labels (bounded: validation only) *)
Fixpoint re_size (r : re) : nat :=
  match r with
  | RCat a b | RAlt a b => S (re_size a + re_size b)
  | RStar a => S (re_size a)
  | _ => 1%nat
  end.
Fixpoint words_upto (syms : list N) (k : nat) : list (list N) :=
  match k with
  | O => [[]]
  | S k' => [] :: flat_map (fun w => map (fun a => a :: w) syms) (words_upto syms k')
  end.
Definition judge_re {Q} `{EqDec Q} `{Canon Q} (A : enfa Q) (r : re) (limit k : nat) : verdict :=
  if Nat.leb (re_size r) limit then judge A (renumber (re_fa r))
  else match find (fun w => negb (Bool.eqb (accepts A w) (re_matches r w))) (dedup (words_upto (dedup (labels A)) k)) with
       | Some w => VDiff (Some w)
       | None => VEqBounded k
       end.

(* ---- C16: transducers ---- *)
From PFL Require Export Spec.Fst Model.Fst.
Definition TFUEL : nat := 24%nat.

(* ---- C05: regular expressions ---- *)
From PFL Require Export Model.RegexParse.
Definition judge_re2 (r1 r2 : re) : verdict := judge (renumber (re_fa r1)) (renumber (re_fa r2)).

(* ---- C07: Python regular expressions ---- *)
From PFL Require Export Model.PyRegex.

(* the trim certificate used together with the uniqueness theorem of the minimal automaton *)
From PFL Require Export Proofs.EnfaIso.

(* ---- C06: the proved model of to_regex against the expression pyformlang returns, on all words up to length k ---- *)
From PFL Require Export Model.Kleene.
Definition to_regex_model_agrees (A : enfa N) (r : re) (k : nat) : bool :=
  let m := to_regex A in
  forallb (fun w => Bool.eqb (re_matches m w) (re_matches r w)) (dedup (words_upto (dedup (labels A)) k)).

(* ---- C05: the proved models of Regex.to_epsilon_nfa and Regex.to_cfg against what pyformlang returns ---- *)
From PFL Require Export Model.Thompson.
Definition re_enfa_same (r : re) (A : enfa nat) : bool :=
  let M := re_enfa_at (match e_starts A with c :: _ => c | [] => 0%nat end) r in
  eqset (e_states M) (e_states A) && eqset (e_syms M) (e_syms A) && eqset (e_delta M) (e_delta A) &&
  eqset (e_starts M) (e_starts A) && eqset (e_finals M) (e_finals A).
From PFL Require Export Spec.Cfg Model.Cfg Model.RegexCfg.
Definition re_cfg_same (r : re) (vars : list rvar) (terms : list N) (prods : list rprod) : bool :=
  let M := re_cfg r in
  eqset (g_vars M) vars && eqset (g_terms M) terms && eqset (g_prods M) prods &&
  match g_start M with Some None => true | _ => false end.

(* ---- C02: the proved model of minimize against the automaton pyformlang returns (same numbers of states, transitions, final states;
   the isomorphism itself is forced by C02_minimize_canonical once the result carries its certificates) ---- *)
From PFL Require Export Model.Minimize.
Definition minimize_model_agrees (A R : enfa N) : bool :=
  let M := minimize_model A FUEL in
  match e_states M with
  | [] => Nat.eqb (length (e_states R)) 1 && Nat.eqb (length (e_delta R)) 0 && Nat.eqb (length (e_finals R)) 0
  | _ => Nat.eqb (length (e_states M)) (length (dedup (e_states R))) && Nat.eqb (length (e_delta M)) (length (dedup (e_delta R)))
         && Nat.eqb (length (e_finals M)) (length (dedup (e_finals R)))
  end.

(* ---- C05: the token sequence of str(regex) against the model pr_py ---- *)
Definition tok_eqb (a b : tok) : bool :=
  match a, b with
  | TSym x, TSym y => N.eqb x y
  | TEps, TEps | TLp, TLp | TRp, TRp | TStar, TStar | TUnion, TUnion | TConcat, TConcat => true
  | _, _ => false
  end.
Fixpoint toks_same (l1 l2 : list tok) : bool :=
  match l1, l2 with
  | [], [] => true
  | a :: r1, b :: r2 => tok_eqb a b && toks_same r1 r2
  | _, _ => false
  end.

(* ---- C05: the mirror of pyformlang's own parser (Model/RegexReader.v) against the tree / the refusal pyformlang produces ---- *)
From PFL Require Export Model.RegexReader.
Fixpoint re_eqb (r s : re) : bool :=
  match r, s with
  | REmpty, REmpty | REps, REps => true
  | RSym a, RSym b => N.eqb a b
  | RCat a b, RCat c d | RAlt a b, RAlt c d => re_eqb a c && re_eqb b d
  | RStar a, RStar b => re_eqb a b
  | _, _ => false
  end.
(* expected: Some tree = pyformlang built this tree; None = pyformlang raised MisformedRegexError *)
Definition reader_agrees (toks : list tok) (expected : option re) : bool :=
  match reader_regex toks, expected with
  | inl t, Some t' => re_eqb t t'
  | inr EMis, None => true
  | _, _ => false
  end.
