(* what the generated case files import *)
From Coq Require Export List Bool NArith.
From PFL Require Export Base.ListSet Spec.Enfa Model.Enfa Oracle.EnfaEquiv.
Export ListNotations.
#[global] Open Scope N_scope.
